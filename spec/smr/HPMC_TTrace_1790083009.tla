---- MODULE HPMC_TTrace_1790083009 ----
EXTENDS Sequences, TLCExt, Toolbox, Naturals, TLC, HPMC

_expression ==
    LET HPMC_TEExpression == INSTANCE HPMC_TEExpression
    IN HPMC_TEExpression!expression
----

_trace ==
    LET HPMC_TETrace == INSTANCE HPMC_TETrace
    IN HPMC_TETrace!trace
----

_inv ==
    ~(
        TLCGet("level") = Len(_TETrace)
        /\
        cur = (<<0, 2>>)
        /\
        hi = ((0 :> 1 @@ 1 :> 2 @@ 2 :> 1))
        /\
        stack = ((0 :> <<>> @@ 1 :> <<[pc |-> "D3", plist |-> {}, idx |-> 1, ri |-> 1, hi |-> 1, keep |-> <<>>, firstp |-> 0, procedure |-> "scan"]>> @@ 2 :> <<>>))
        /\
        hp = (<<<<0>>, <<2>>>>)
        /\
        hr = ((0 :> 1 @@ 1 :> 1 @@ 2 :> 1))
        /\
        fin = (<<FALSE, FALSE>>)
        /\
        firstp = ((0 :> 0 @@ 1 :> 1 @@ 2 :> 0))
        /\
        cell = (<<3>>)
        /\
        valid = (<<<<0>>, <<0>>>>)
        /\
        rec = (<<1, 2>>)
        /\
        nrec = (2)
        /\
        plist = ((0 :> {} @@ 1 :> {2} @@ 2 :> {}))
        /\
        nextObj = (4)
        /\
        retired = (<<<<1, 2>>, <<>>>>)
        /\
        mi = ((0 :> 1 @@ 1 :> 1 @@ 2 :> 1))
        /\
        cc = (<<1, 1>>)
        /\
        ret = (<<0, 2>>)
        /\
        dcount = (<<1, 0, 0, 0>>)
        /\
        kk = (<<1, 1>>)
        /\
        owner = (<<TRUE, TRUE>>)
        /\
        ci = (<<2, 1>>)
        /\
        old = (<<2, 0>>)
        /\
        ai = (<<1, 1>>)
        /\
        list = (<<2, 1>>)
        /\
        freeFlag = (<<FALSE, FALSE>>)
        /\
        destroyed = (FALSE)
        /\
        pc = ((0 :> "M0" @@ 1 :> "SC5" @@ 2 :> "P3"))
        /\
        ops = (<<2, 1>>)
        /\
        ostate = (<<"disposed", "retired", "linked", "fresh">>)
        /\
        ri = ((0 :> 1 @@ 1 :> 3 @@ 2 :> 1))
        /\
        keep = ((0 :> <<>> @@ 1 :> <<>> @@ 2 :> <<>>))
        /\
        idx = ((0 :> 1 @@ 1 :> 2 @@ 2 :> 1))
        /\
        snap = (<<{<<2, 1, 2>>}, {}>>)
    )
----

_init ==
    /\ valid = _TETrace[1].valid
    /\ mi = _TETrace[1].mi
    /\ ai = _TETrace[1].ai
    /\ cur = _TETrace[1].cur
    /\ snap = _TETrace[1].snap
    /\ plist = _TETrace[1].plist
    /\ cc = _TETrace[1].cc
    /\ ci = _TETrace[1].ci
    /\ freeFlag = _TETrace[1].freeFlag
    /\ pc = _TETrace[1].pc
    /\ rec = _TETrace[1].rec
    /\ ri = _TETrace[1].ri
    /\ old = _TETrace[1].old
    /\ ret = _TETrace[1].ret
    /\ nextObj = _TETrace[1].nextObj
    /\ nrec = _TETrace[1].nrec
    /\ list = _TETrace[1].list
    /\ hi = _TETrace[1].hi
    /\ keep = _TETrace[1].keep
    /\ hp = _TETrace[1].hp
    /\ hr = _TETrace[1].hr
    /\ fin = _TETrace[1].fin
    /\ ostate = _TETrace[1].ostate
    /\ destroyed = _TETrace[1].destroyed
    /\ firstp = _TETrace[1].firstp
    /\ idx = _TETrace[1].idx
    /\ dcount = _TETrace[1].dcount
    /\ ops = _TETrace[1].ops
    /\ kk = _TETrace[1].kk
    /\ stack = _TETrace[1].stack
    /\ retired = _TETrace[1].retired
    /\ owner = _TETrace[1].owner
    /\ cell = _TETrace[1].cell
----

_next ==
    /\ \E i,j \in DOMAIN _TETrace:
        /\ \/ /\ j = i + 1
              /\ i = TLCGet("level")
        /\ valid  = _TETrace[i].valid
        /\ valid' = _TETrace[j].valid
        /\ mi  = _TETrace[i].mi
        /\ mi' = _TETrace[j].mi
        /\ ai  = _TETrace[i].ai
        /\ ai' = _TETrace[j].ai
        /\ cur  = _TETrace[i].cur
        /\ cur' = _TETrace[j].cur
        /\ snap  = _TETrace[i].snap
        /\ snap' = _TETrace[j].snap
        /\ plist  = _TETrace[i].plist
        /\ plist' = _TETrace[j].plist
        /\ cc  = _TETrace[i].cc
        /\ cc' = _TETrace[j].cc
        /\ ci  = _TETrace[i].ci
        /\ ci' = _TETrace[j].ci
        /\ freeFlag  = _TETrace[i].freeFlag
        /\ freeFlag' = _TETrace[j].freeFlag
        /\ pc  = _TETrace[i].pc
        /\ pc' = _TETrace[j].pc
        /\ rec  = _TETrace[i].rec
        /\ rec' = _TETrace[j].rec
        /\ ri  = _TETrace[i].ri
        /\ ri' = _TETrace[j].ri
        /\ old  = _TETrace[i].old
        /\ old' = _TETrace[j].old
        /\ ret  = _TETrace[i].ret
        /\ ret' = _TETrace[j].ret
        /\ nextObj  = _TETrace[i].nextObj
        /\ nextObj' = _TETrace[j].nextObj
        /\ nrec  = _TETrace[i].nrec
        /\ nrec' = _TETrace[j].nrec
        /\ list  = _TETrace[i].list
        /\ list' = _TETrace[j].list
        /\ hi  = _TETrace[i].hi
        /\ hi' = _TETrace[j].hi
        /\ keep  = _TETrace[i].keep
        /\ keep' = _TETrace[j].keep
        /\ hp  = _TETrace[i].hp
        /\ hp' = _TETrace[j].hp
        /\ hr  = _TETrace[i].hr
        /\ hr' = _TETrace[j].hr
        /\ fin  = _TETrace[i].fin
        /\ fin' = _TETrace[j].fin
        /\ ostate  = _TETrace[i].ostate
        /\ ostate' = _TETrace[j].ostate
        /\ destroyed  = _TETrace[i].destroyed
        /\ destroyed' = _TETrace[j].destroyed
        /\ firstp  = _TETrace[i].firstp
        /\ firstp' = _TETrace[j].firstp
        /\ idx  = _TETrace[i].idx
        /\ idx' = _TETrace[j].idx
        /\ dcount  = _TETrace[i].dcount
        /\ dcount' = _TETrace[j].dcount
        /\ ops  = _TETrace[i].ops
        /\ ops' = _TETrace[j].ops
        /\ kk  = _TETrace[i].kk
        /\ kk' = _TETrace[j].kk
        /\ stack  = _TETrace[i].stack
        /\ stack' = _TETrace[j].stack
        /\ retired  = _TETrace[i].retired
        /\ retired' = _TETrace[j].retired
        /\ owner  = _TETrace[i].owner
        /\ owner' = _TETrace[j].owner
        /\ cell  = _TETrace[i].cell
        /\ cell' = _TETrace[j].cell

\* Uncomment the ASSUME below to write the states of the error trace
\* to the given file in Json format. Note that you can pass any tuple
\* to `JsonSerialize`. For example, a sub-sequence of _TETrace.
    \* ASSUME
    \*     LET J == INSTANCE Json
    \*         IN J!JsonSerialize("HPMC_TTrace_1790083009.json", _TETrace)

=============================================================================

 Note that you can extract this module `HPMC_TEExpression`
  to a dedicated file to reuse `expression` (the module in the 
  dedicated `HPMC_TEExpression.tla` file takes precedence 
  over the module `HPMC_TEExpression` below).

---- MODULE HPMC_TEExpression ----
EXTENDS Sequences, TLCExt, Toolbox, Naturals, TLC, HPMC

expression == 
    [
        \* To hide variables of the `HPMC` spec from the error trace,
        \* remove the variables below.  The trace will be written in the order
        \* of the fields of this record.
        valid |-> valid
        ,mi |-> mi
        ,ai |-> ai
        ,cur |-> cur
        ,snap |-> snap
        ,plist |-> plist
        ,cc |-> cc
        ,ci |-> ci
        ,freeFlag |-> freeFlag
        ,pc |-> pc
        ,rec |-> rec
        ,ri |-> ri
        ,old |-> old
        ,ret |-> ret
        ,nextObj |-> nextObj
        ,nrec |-> nrec
        ,list |-> list
        ,hi |-> hi
        ,keep |-> keep
        ,hp |-> hp
        ,hr |-> hr
        ,fin |-> fin
        ,ostate |-> ostate
        ,destroyed |-> destroyed
        ,firstp |-> firstp
        ,idx |-> idx
        ,dcount |-> dcount
        ,ops |-> ops
        ,kk |-> kk
        ,stack |-> stack
        ,retired |-> retired
        ,owner |-> owner
        ,cell |-> cell
        
        \* Put additional constant-, state-, and action-level expressions here:
        \* ,_stateNumber |-> _TEPosition
        \* ,_validUnchanged |-> valid = valid'
        
        \* Format the `valid` variable as Json value.
        \* ,_validJson |->
        \*     LET J == INSTANCE Json
        \*     IN J!ToJson(valid)
        
        \* Lastly, you may build expressions over arbitrary sets of states by
        \* leveraging the _TETrace operator.  For example, this is how to
        \* count the number of times a spec variable changed up to the current
        \* state in the trace.
        \* ,_validModCount |->
        \*     LET F[s \in DOMAIN _TETrace] ==
        \*         IF s = 1 THEN 0
        \*         ELSE IF _TETrace[s].valid # _TETrace[s-1].valid
        \*             THEN 1 + F[s-1] ELSE F[s-1]
        \*     IN F[_TEPosition - 1]
    ]

=============================================================================



Parsing and semantic processing can take forever if the trace below is long.
 In this case, it is advised to uncomment the module below to deserialize the
 trace from a generated binary file.

\*
\*---- MODULE HPMC_TETrace ----
\*EXTENDS IOUtils, TLC, HPMC
\*
\*trace == IODeserialize("HPMC_TTrace_1790083009.bin", TRUE)
\*
\*=============================================================================
\*

---- MODULE HPMC_TETrace ----
EXTENDS TLC, HPMC

trace == 
    <<
    ([cur |-> <<0, 0>>,hi |-> (0 :> 1 @@ 1 :> 1 @@ 2 :> 1),stack |-> (0 :> <<>> @@ 1 :> <<>> @@ 2 :> <<>>),hp |-> <<<<0>>, <<0>>>>,hr |-> (0 :> 1 @@ 1 :> 1 @@ 2 :> 1),fin |-> <<FALSE, FALSE>>,firstp |-> (0 :> 0 @@ 1 :> 0 @@ 2 :> 0),cell |-> <<1>>,valid |-> <<<<0>>, <<0>>>>,rec |-> <<0, 0>>,nrec |-> 0,plist |-> (0 :> {} @@ 1 :> {} @@ 2 :> {}),nextObj |-> 2,retired |-> <<<<>>, <<>>>>,mi |-> (0 :> 1 @@ 1 :> 1 @@ 2 :> 1),cc |-> <<1, 1>>,ret |-> <<0, 0>>,dcount |-> <<0, 0, 0, 0>>,kk |-> <<1, 1>>,owner |-> <<FALSE, FALSE>>,ci |-> <<1, 1>>,old |-> <<0, 0>>,ai |-> <<1, 1>>,list |-> <<>>,freeFlag |-> <<FALSE, FALSE>>,destroyed |-> FALSE,pc |-> (0 :> "M0" @@ 1 :> "A0" @@ 2 :> "A0"),ops |-> <<0, 0>>,ostate |-> <<"linked", "fresh", "fresh", "fresh">>,ri |-> (0 :> 1 @@ 1 :> 1 @@ 2 :> 1),keep |-> (0 :> <<>> @@ 1 :> <<>> @@ 2 :> <<>>),idx |-> (0 :> 1 @@ 1 :> 1 @@ 2 :> 1),snap |-> <<{}, {}>>]),
    ([cur |-> <<0, 0>>,hi |-> (0 :> 1 @@ 1 :> 1 @@ 2 :> 1),stack |-> (0 :> <<>> @@ 1 :> <<>> @@ 2 :> <<>>),hp |-> <<<<0>>, <<0>>>>,hr |-> (0 :> 1 @@ 1 :> 1 @@ 2 :> 1),fin |-> <<FALSE, FALSE>>,firstp |-> (0 :> 0 @@ 1 :> 0 @@ 2 :> 0),cell |-> <<1>>,valid |-> <<<<0>>, <<0>>>>,rec |-> <<0, 0>>,nrec |-> 0,plist |-> (0 :> {} @@ 1 :> {} @@ 2 :> {}),nextObj |-> 2,retired |-> <<<<>>, <<>>>>,mi |-> (0 :> 1 @@ 1 :> 1 @@ 2 :> 1),cc |-> <<1, 1>>,ret |-> <<0, 0>>,dcount |-> <<0, 0, 0, 0>>,kk |-> <<1, 1>>,owner |-> <<FALSE, FALSE>>,ci |-> <<1, 1>>,old |-> <<0, 0>>,ai |-> <<1, 1>>,list |-> <<>>,freeFlag |-> <<FALSE, FALSE>>,destroyed |-> FALSE,pc |-> (0 :> "M0" @@ 1 :> "A1" @@ 2 :> "A0"),ops |-> <<0, 0>>,ostate |-> <<"linked", "fresh", "fresh", "fresh">>,ri |-> (0 :> 1 @@ 1 :> 1 @@ 2 :> 1),keep |-> (0 :> <<>> @@ 1 :> <<>> @@ 2 :> <<>>),idx |-> (0 :> 1 @@ 1 :> 1 @@ 2 :> 1),snap |-> <<{}, {}>>]),
    ([cur |-> <<0, 0>>,hi |-> (0 :> 1 @@ 1 :> 1 @@ 2 :> 1),stack |-> (0 :> <<>> @@ 1 :> <<>> @@ 2 :> <<>>),hp |-> <<<<0>>, <<0>>>>,hr |-> (0 :> 1 @@ 1 :> 1 @@ 2 :> 1),fin |-> <<FALSE, FALSE>>,firstp |-> (0 :> 0 @@ 1 :> 0 @@ 2 :> 0),cell |-> <<1>>,valid |-> <<<<0>>, <<0>>>>,rec |-> <<0, 0>>,nrec |-> 0,plist |-> (0 :> {} @@ 1 :> {} @@ 2 :> {}),nextObj |-> 2,retired |-> <<<<>>, <<>>>>,mi |-> (0 :> 1 @@ 1 :> 1 @@ 2 :> 1),cc |-> <<1, 1>>,ret |-> <<0, 0>>,dcount |-> <<0, 0, 0, 0>>,kk |-> <<1, 1>>,owner |-> <<FALSE, FALSE>>,ci |-> <<1, 1>>,old |-> <<0, 0>>,ai |-> <<1, 1>>,list |-> <<>>,freeFlag |-> <<FALSE, FALSE>>,destroyed |-> FALSE,pc |-> (0 :> "M0" @@ 1 :> "A1" @@ 2 :> "A1"),ops |-> <<0, 0>>,ostate |-> <<"linked", "fresh", "fresh", "fresh">>,ri |-> (0 :> 1 @@ 1 :> 1 @@ 2 :> 1),keep |-> (0 :> <<>> @@ 1 :> <<>> @@ 2 :> <<>>),idx |-> (0 :> 1 @@ 1 :> 1 @@ 2 :> 1),snap |-> <<{}, {}>>]),
    ([cur |-> <<0, 0>>,hi |-> (0 :> 1 @@ 1 :> 1 @@ 2 :> 1),stack |-> (0 :> <<>> @@ 1 :> <<>> @@ 2 :> <<>>),hp |-> <<<<0>>, <<0>>>>,hr |-> (0 :> 1 @@ 1 :> 1 @@ 2 :> 1),fin |-> <<FALSE, FALSE>>,firstp |-> (0 :> 0 @@ 1 :> 0 @@ 2 :> 0),cell |-> <<1>>,valid |-> <<<<0>>, <<0>>>>,rec |-> <<0, 0>>,nrec |-> 0,plist |-> (0 :> {} @@ 1 :> {} @@ 2 :> {}),nextObj |-> 2,retired |-> <<<<>>, <<>>>>,mi |-> (0 :> 1 @@ 1 :> 1 @@ 2 :> 1),cc |-> <<1, 1>>,ret |-> <<0, 0>>,dcount |-> <<0, 0, 0, 0>>,kk |-> <<1, 1>>,owner |-> <<FALSE, FALSE>>,ci |-> <<1, 1>>,old |-> <<0, 0>>,ai |-> <<1, 1>>,list |-> <<>>,freeFlag |-> <<FALSE, FALSE>>,destroyed |-> FALSE,pc |-> (0 :> "M0" @@ 1 :> "A1" @@ 2 :> "A3"),ops |-> <<0, 0>>,ostate |-> <<"linked", "fresh", "fresh", "fresh">>,ri |-> (0 :> 1 @@ 1 :> 1 @@ 2 :> 1),keep |-> (0 :> <<>> @@ 1 :> <<>> @@ 2 :> <<>>),idx |-> (0 :> 1 @@ 1 :> 1 @@ 2 :> 1),snap |-> <<{}, {}>>]),
    ([cur |-> <<0, 0>>,hi |-> (0 :> 1 @@ 1 :> 1 @@ 2 :> 1),stack |-> (0 :> <<>> @@ 1 :> <<>> @@ 2 :> <<>>),hp |-> <<<<0>>, <<0>>>>,hr |-> (0 :> 1 @@ 1 :> 1 @@ 2 :> 1),fin |-> <<FALSE, FALSE>>,firstp |-> (0 :> 0 @@ 1 :> 0 @@ 2 :> 0),cell |-> <<1>>,valid |-> <<<<0>>, <<0>>>>,rec |-> <<0, 0>>,nrec |-> 0,plist |-> (0 :> {} @@ 1 :> {} @@ 2 :> {}),nextObj |-> 2,retired |-> <<<<>>, <<>>>>,mi |-> (0 :> 1 @@ 1 :> 1 @@ 2 :> 1),cc |-> <<1, 1>>,ret |-> <<0, 0>>,dcount |-> <<0, 0, 0, 0>>,kk |-> <<1, 1>>,owner |-> <<FALSE, FALSE>>,ci |-> <<1, 1>>,old |-> <<0, 0>>,ai |-> <<1, 1>>,list |-> <<>>,freeFlag |-> <<FALSE, FALSE>>,destroyed |-> FALSE,pc |-> (0 :> "M0" @@ 1 :> "A3" @@ 2 :> "A3"),ops |-> <<0, 0>>,ostate |-> <<"linked", "fresh", "fresh", "fresh">>,ri |-> (0 :> 1 @@ 1 :> 1 @@ 2 :> 1),keep |-> (0 :> <<>> @@ 1 :> <<>> @@ 2 :> <<>>),idx |-> (0 :> 1 @@ 1 :> 1 @@ 2 :> 1),snap |-> <<{}, {}>>]),
    ([cur |-> <<0, 0>>,hi |-> (0 :> 1 @@ 1 :> 1 @@ 2 :> 1),stack |-> (0 :> <<>> @@ 1 :> <<>> @@ 2 :> <<>>),hp |-> <<<<0>>, <<0>>>>,hr |-> (0 :> 1 @@ 1 :> 1 @@ 2 :> 1),fin |-> <<FALSE, FALSE>>,firstp |-> (0 :> 0 @@ 1 :> 0 @@ 2 :> 0),cell |-> <<1>>,valid |-> <<<<0>>, <<0>>>>,rec |-> <<1, 0>>,nrec |-> 1,plist |-> (0 :> {} @@ 1 :> {} @@ 2 :> {}),nextObj |-> 2,retired |-> <<<<>>, <<>>>>,mi |-> (0 :> 1 @@ 1 :> 1 @@ 2 :> 1),cc |-> <<1, 1>>,ret |-> <<0, 0>>,dcount |-> <<0, 0, 0, 0>>,kk |-> <<1, 1>>,owner |-> <<TRUE, FALSE>>,ci |-> <<1, 1>>,old |-> <<0, 0>>,ai |-> <<1, 1>>,list |-> <<1>>,freeFlag |-> <<FALSE, FALSE>>,destroyed |-> FALSE,pc |-> (0 :> "M0" @@ 1 :> "C0" @@ 2 :> "A3"),ops |-> <<0, 0>>,ostate |-> <<"linked", "fresh", "fresh", "fresh">>,ri |-> (0 :> 1 @@ 1 :> 1 @@ 2 :> 1),keep |-> (0 :> <<>> @@ 1 :> <<>> @@ 2 :> <<>>),idx |-> (0 :> 1 @@ 1 :> 1 @@ 2 :> 1),snap |-> <<{}, {}>>]),
    ([cur |-> <<0, 0>>,hi |-> (0 :> 1 @@ 1 :> 1 @@ 2 :> 1),stack |-> (0 :> <<>> @@ 1 :> <<>> @@ 2 :> <<>>),hp |-> <<<<0>>, <<0>>>>,hr |-> (0 :> 1 @@ 1 :> 1 @@ 2 :> 1),fin |-> <<FALSE, FALSE>>,firstp |-> (0 :> 0 @@ 1 :> 0 @@ 2 :> 0),cell |-> <<1>>,valid |-> <<<<0>>, <<0>>>>,rec |-> <<1, 0>>,nrec |-> 1,plist |-> (0 :> {} @@ 1 :> {} @@ 2 :> {}),nextObj |-> 2,retired |-> <<<<>>, <<>>>>,mi |-> (0 :> 1 @@ 1 :> 1 @@ 2 :> 1),cc |-> <<1, 1>>,ret |-> <<0, 0>>,dcount |-> <<0, 0, 0, 0>>,kk |-> <<1, 1>>,owner |-> <<TRUE, FALSE>>,ci |-> <<1, 1>>,old |-> <<0, 0>>,ai |-> <<1, 1>>,list |-> <<1>>,freeFlag |-> <<FALSE, FALSE>>,destroyed |-> FALSE,pc |-> (0 :> "M0" @@ 1 :> "U1" @@ 2 :> "A3"),ops |-> <<1, 0>>,ostate |-> <<"linked", "fresh", "fresh", "fresh">>,ri |-> (0 :> 1 @@ 1 :> 1 @@ 2 :> 1),keep |-> (0 :> <<>> @@ 1 :> <<>> @@ 2 :> <<>>),idx |-> (0 :> 1 @@ 1 :> 1 @@ 2 :> 1),snap |-> <<{}, {}>>]),
    ([cur |-> <<0, 0>>,hi |-> (0 :> 1 @@ 1 :> 1 @@ 2 :> 1),stack |-> (0 :> <<>> @@ 1 :> <<>> @@ 2 :> <<>>),hp |-> <<<<0>>, <<0>>>>,hr |-> (0 :> 1 @@ 1 :> 1 @@ 2 :> 1),fin |-> <<FALSE, FALSE>>,firstp |-> (0 :> 0 @@ 1 :> 0 @@ 2 :> 0),cell |-> <<2>>,valid |-> <<<<0>>, <<0>>>>,rec |-> <<1, 0>>,nrec |-> 1,plist |-> (0 :> {} @@ 1 :> {} @@ 2 :> {}),nextObj |-> 3,retired |-> <<<<>>, <<>>>>,mi |-> (0 :> 1 @@ 1 :> 1 @@ 2 :> 1),cc |-> <<1, 1>>,ret |-> <<0, 0>>,dcount |-> <<0, 0, 0, 0>>,kk |-> <<1, 1>>,owner |-> <<TRUE, FALSE>>,ci |-> <<1, 1>>,old |-> <<1, 0>>,ai |-> <<1, 1>>,list |-> <<1>>,freeFlag |-> <<FALSE, FALSE>>,destroyed |-> FALSE,pc |-> (0 :> "M0" @@ 1 :> "U2" @@ 2 :> "A3"),ops |-> <<1, 0>>,ostate |-> <<"retired", "linked", "fresh", "fresh">>,ri |-> (0 :> 1 @@ 1 :> 1 @@ 2 :> 1),keep |-> (0 :> <<>> @@ 1 :> <<>> @@ 2 :> <<>>),idx |-> (0 :> 1 @@ 1 :> 1 @@ 2 :> 1),snap |-> <<{}, {}>>]),
    ([cur |-> <<0, 0>>,hi |-> (0 :> 1 @@ 1 :> 1 @@ 2 :> 1),stack |-> (0 :> <<>> @@ 1 :> <<>> @@ 2 :> <<>>),hp |-> <<<<0>>, <<0>>>>,hr |-> (0 :> 1 @@ 1 :> 1 @@ 2 :> 1),fin |-> <<FALSE, FALSE>>,firstp |-> (0 :> 0 @@ 1 :> 0 @@ 2 :> 0),cell |-> <<2>>,valid |-> <<<<0>>, <<0>>>>,rec |-> <<1, 0>>,nrec |-> 1,plist |-> (0 :> {} @@ 1 :> {} @@ 2 :> {}),nextObj |-> 3,retired |-> <<<<1>>, <<>>>>,mi |-> (0 :> 1 @@ 1 :> 1 @@ 2 :> 1),cc |-> <<1, 1>>,ret |-> <<0, 0>>,dcount |-> <<0, 0, 0, 0>>,kk |-> <<1, 1>>,owner |-> <<TRUE, FALSE>>,ci |-> <<1, 1>>,old |-> <<1, 0>>,ai |-> <<1, 1>>,list |-> <<1>>,freeFlag |-> <<FALSE, FALSE>>,destroyed |-> FALSE,pc |-> (0 :> "M0" @@ 1 :> "C1" @@ 2 :> "A3"),ops |-> <<1, 0>>,ostate |-> <<"retired", "linked", "fresh", "fresh">>,ri |-> (0 :> 1 @@ 1 :> 1 @@ 2 :> 1),keep |-> (0 :> <<>> @@ 1 :> <<>> @@ 2 :> <<>>),idx |-> (0 :> 1 @@ 1 :> 1 @@ 2 :> 1),snap |-> <<{}, {}>>]),
    ([cur |-> <<0, 0>>,hi |-> (0 :> 1 @@ 1 :> 1 @@ 2 :> 1),stack |-> (0 :> <<>> @@ 1 :> <<>> @@ 2 :> <<>>),hp |-> <<<<0>>, <<0>>>>,hr |-> (0 :> 1 @@ 1 :> 1 @@ 2 :> 1),fin |-> <<FALSE, FALSE>>,firstp |-> (0 :> 0 @@ 1 :> 0 @@ 2 :> 0),cell |-> <<2>>,valid |-> <<<<0>>, <<0>>>>,rec |-> <<1, 0>>,nrec |-> 1,plist |-> (0 :> {} @@ 1 :> {} @@ 2 :> {}),nextObj |-> 3,retired |-> <<<<1>>, <<>>>>,mi |-> (0 :> 1 @@ 1 :> 1 @@ 2 :> 1),cc |-> <<1, 1>>,ret |-> <<0, 0>>,dcount |-> <<0, 0, 0, 0>>,kk |-> <<1, 1>>,owner |-> <<TRUE, FALSE>>,ci |-> <<1, 1>>,old |-> <<1, 0>>,ai |-> <<1, 1>>,list |-> <<1>>,freeFlag |-> <<FALSE, FALSE>>,destroyed |-> FALSE,pc |-> (0 :> "M0" @@ 1 :> "C0" @@ 2 :> "A3"),ops |-> <<1, 0>>,ostate |-> <<"retired", "linked", "fresh", "fresh">>,ri |-> (0 :> 1 @@ 1 :> 1 @@ 2 :> 1),keep |-> (0 :> <<>> @@ 1 :> <<>> @@ 2 :> <<>>),idx |-> (0 :> 1 @@ 1 :> 1 @@ 2 :> 1),snap |-> <<{}, {}>>]),
    ([cur |-> <<0, 0>>,hi |-> (0 :> 1 @@ 1 :> 1 @@ 2 :> 1),stack |-> (0 :> <<>> @@ 1 :> <<>> @@ 2 :> <<>>),hp |-> <<<<0>>, <<0>>>>,hr |-> (0 :> 1 @@ 1 :> 1 @@ 2 :> 1),fin |-> <<FALSE, FALSE>>,firstp |-> (0 :> 0 @@ 1 :> 0 @@ 2 :> 0),cell |-> <<2>>,valid |-> <<<<0>>, <<0>>>>,rec |-> <<1, 0>>,nrec |-> 1,plist |-> (0 :> {} @@ 1 :> {} @@ 2 :> {}),nextObj |-> 3,retired |-> <<<<1>>, <<>>>>,mi |-> (0 :> 1 @@ 1 :> 1 @@ 2 :> 1),cc |-> <<1, 1>>,ret |-> <<0, 0>>,dcount |-> <<0, 0, 0, 0>>,kk |-> <<1, 1>>,owner |-> <<TRUE, FALSE>>,ci |-> <<1, 1>>,old |-> <<1, 0>>,ai |-> <<1, 1>>,list |-> <<1>>,freeFlag |-> <<FALSE, FALSE>>,destroyed |-> FALSE,pc |-> (0 :> "M0" @@ 1 :> "U1" @@ 2 :> "A3"),ops |-> <<2, 0>>,ostate |-> <<"retired", "linked", "fresh", "fresh">>,ri |-> (0 :> 1 @@ 1 :> 1 @@ 2 :> 1),keep |-> (0 :> <<>> @@ 1 :> <<>> @@ 2 :> <<>>),idx |-> (0 :> 1 @@ 1 :> 1 @@ 2 :> 1),snap |-> <<{}, {}>>]),
    ([cur |-> <<0, 0>>,hi |-> (0 :> 1 @@ 1 :> 1 @@ 2 :> 1),stack |-> (0 :> <<>> @@ 1 :> <<>> @@ 2 :> <<>>),hp |-> <<<<0>>, <<0>>>>,hr |-> (0 :> 1 @@ 1 :> 1 @@ 2 :> 1),fin |-> <<FALSE, FALSE>>,firstp |-> (0 :> 0 @@ 1 :> 0 @@ 2 :> 0),cell |-> <<2>>,valid |-> <<<<0>>, <<0>>>>,rec |-> <<1, 2>>,nrec |-> 2,plist |-> (0 :> {} @@ 1 :> {} @@ 2 :> {}),nextObj |-> 3,retired |-> <<<<1>>, <<>>>>,mi |-> (0 :> 1 @@ 1 :> 1 @@ 2 :> 1),cc |-> <<1, 1>>,ret |-> <<0, 0>>,dcount |-> <<0, 0, 0, 0>>,kk |-> <<1, 1>>,owner |-> <<TRUE, TRUE>>,ci |-> <<1, 1>>,old |-> <<1, 0>>,ai |-> <<1, 1>>,list |-> <<2, 1>>,freeFlag |-> <<FALSE, FALSE>>,destroyed |-> FALSE,pc |-> (0 :> "M0" @@ 1 :> "U1" @@ 2 :> "C0"),ops |-> <<2, 0>>,ostate |-> <<"retired", "linked", "fresh", "fresh">>,ri |-> (0 :> 1 @@ 1 :> 1 @@ 2 :> 1),keep |-> (0 :> <<>> @@ 1 :> <<>> @@ 2 :> <<>>),idx |-> (0 :> 1 @@ 1 :> 1 @@ 2 :> 1),snap |-> <<{}, {}>>]),
    ([cur |-> <<0, 0>>,hi |-> (0 :> 1 @@ 1 :> 1 @@ 2 :> 1),stack |-> (0 :> <<>> @@ 1 :> <<>> @@ 2 :> <<>>),hp |-> <<<<0>>, <<0>>>>,hr |-> (0 :> 1 @@ 1 :> 1 @@ 2 :> 1),fin |-> <<FALSE, FALSE>>,firstp |-> (0 :> 0 @@ 1 :> 0 @@ 2 :> 0),cell |-> <<2>>,valid |-> <<<<0>>, <<0>>>>,rec |-> <<1, 2>>,nrec |-> 2,plist |-> (0 :> {} @@ 1 :> {} @@ 2 :> {}),nextObj |-> 3,retired |-> <<<<1>>, <<>>>>,mi |-> (0 :> 1 @@ 1 :> 1 @@ 2 :> 1),cc |-> <<1, 1>>,ret |-> <<0, 0>>,dcount |-> <<0, 0, 0, 0>>,kk |-> <<1, 1>>,owner |-> <<TRUE, TRUE>>,ci |-> <<1, 1>>,old |-> <<1, 0>>,ai |-> <<1, 1>>,list |-> <<2, 1>>,freeFlag |-> <<FALSE, FALSE>>,destroyed |-> FALSE,pc |-> (0 :> "M0" @@ 1 :> "U1" @@ 2 :> "P1"),ops |-> <<2, 1>>,ostate |-> <<"retired", "linked", "fresh", "fresh">>,ri |-> (0 :> 1 @@ 1 :> 1 @@ 2 :> 1),keep |-> (0 :> <<>> @@ 1 :> <<>> @@ 2 :> <<>>),idx |-> (0 :> 1 @@ 1 :> 1 @@ 2 :> 1),snap |-> <<{}, {}>>]),
    ([cur |-> <<0, 2>>,hi |-> (0 :> 1 @@ 1 :> 1 @@ 2 :> 1),stack |-> (0 :> <<>> @@ 1 :> <<>> @@ 2 :> <<>>),hp |-> <<<<0>>, <<0>>>>,hr |-> (0 :> 1 @@ 1 :> 1 @@ 2 :> 1),fin |-> <<FALSE, FALSE>>,firstp |-> (0 :> 0 @@ 1 :> 0 @@ 2 :> 0),cell |-> <<2>>,valid |-> <<<<0>>, <<0>>>>,rec |-> <<1, 2>>,nrec |-> 2,plist |-> (0 :> {} @@ 1 :> {} @@ 2 :> {}),nextObj |-> 3,retired |-> <<<<1>>, <<>>>>,mi |-> (0 :> 1 @@ 1 :> 1 @@ 2 :> 1),cc |-> <<1, 1>>,ret |-> <<0, 0>>,dcount |-> <<0, 0, 0, 0>>,kk |-> <<1, 1>>,owner |-> <<TRUE, TRUE>>,ci |-> <<1, 1>>,old |-> <<1, 0>>,ai |-> <<1, 1>>,list |-> <<2, 1>>,freeFlag |-> <<FALSE, FALSE>>,destroyed |-> FALSE,pc |-> (0 :> "M0" @@ 1 :> "U1" @@ 2 :> "P2"),ops |-> <<2, 1>>,ostate |-> <<"retired", "linked", "fresh", "fresh">>,ri |-> (0 :> 1 @@ 1 :> 1 @@ 2 :> 1),keep |-> (0 :> <<>> @@ 1 :> <<>> @@ 2 :> <<>>),idx |-> (0 :> 1 @@ 1 :> 1 @@ 2 :> 1),snap |-> <<{}, {}>>]),
    ([cur |-> <<0, 2>>,hi |-> (0 :> 1 @@ 1 :> 1 @@ 2 :> 1),stack |-> (0 :> <<>> @@ 1 :> <<>> @@ 2 :> <<>>),hp |-> <<<<0>>, <<0>>>>,hr |-> (0 :> 1 @@ 1 :> 1 @@ 2 :> 1),fin |-> <<FALSE, FALSE>>,firstp |-> (0 :> 0 @@ 1 :> 0 @@ 2 :> 0),cell |-> <<3>>,valid |-> <<<<0>>, <<0>>>>,rec |-> <<1, 2>>,nrec |-> 2,plist |-> (0 :> {} @@ 1 :> {} @@ 2 :> {}),nextObj |-> 4,retired |-> <<<<1>>, <<>>>>,mi |-> (0 :> 1 @@ 1 :> 1 @@ 2 :> 1),cc |-> <<1, 1>>,ret |-> <<0, 0>>,dcount |-> <<0, 0, 0, 0>>,kk |-> <<1, 1>>,owner |-> <<TRUE, TRUE>>,ci |-> <<1, 1>>,old |-> <<2, 0>>,ai |-> <<1, 1>>,list |-> <<2, 1>>,freeFlag |-> <<FALSE, FALSE>>,destroyed |-> FALSE,pc |-> (0 :> "M0" @@ 1 :> "U2" @@ 2 :> "P2"),ops |-> <<2, 1>>,ostate |-> <<"retired", "retired", "linked", "fresh">>,ri |-> (0 :> 1 @@ 1 :> 1 @@ 2 :> 1),keep |-> (0 :> <<>> @@ 1 :> <<>> @@ 2 :> <<>>),idx |-> (0 :> 1 @@ 1 :> 1 @@ 2 :> 1),snap |-> <<{}, {}>>]),
    ([cur |-> <<0, 2>>,hi |-> (0 :> 1 @@ 1 :> 1 @@ 2 :> 1),stack |-> (0 :> <<>> @@ 1 :> <<>> @@ 2 :> <<>>),hp |-> <<<<0>>, <<0>>>>,hr |-> (0 :> 1 @@ 1 :> 1 @@ 2 :> 1),fin |-> <<FALSE, FALSE>>,firstp |-> (0 :> 0 @@ 1 :> 0 @@ 2 :> 0),cell |-> <<3>>,valid |-> <<<<0>>, <<0>>>>,rec |-> <<1, 2>>,nrec |-> 2,plist |-> (0 :> {} @@ 1 :> {} @@ 2 :> {}),nextObj |-> 4,retired |-> <<<<1, 2>>, <<>>>>,mi |-> (0 :> 1 @@ 1 :> 1 @@ 2 :> 1),cc |-> <<1, 1>>,ret |-> <<0, 0>>,dcount |-> <<0, 0, 0, 0>>,kk |-> <<1, 1>>,owner |-> <<TRUE, TRUE>>,ci |-> <<1, 1>>,old |-> <<2, 0>>,ai |-> <<1, 1>>,list |-> <<2, 1>>,freeFlag |-> <<FALSE, FALSE>>,destroyed |-> FALSE,pc |-> (0 :> "M0" @@ 1 :> "C1" @@ 2 :> "P2"),ops |-> <<2, 1>>,ostate |-> <<"retired", "retired", "linked", "fresh">>,ri |-> (0 :> 1 @@ 1 :> 1 @@ 2 :> 1),keep |-> (0 :> <<>> @@ 1 :> <<>> @@ 2 :> <<>>),idx |-> (0 :> 1 @@ 1 :> 1 @@ 2 :> 1),snap |-> <<{}, {}>>]),
    ([cur |-> <<0, 2>>,hi |-> (0 :> 1 @@ 1 :> 1 @@ 2 :> 1),stack |-> (0 :> <<>> @@ 1 :> <<>> @@ 2 :> <<>>),hp |-> <<<<0>>, <<0>>>>,hr |-> (0 :> 1 @@ 1 :> 1 @@ 2 :> 1),fin |-> <<FALSE, FALSE>>,firstp |-> (0 :> 0 @@ 1 :> 0 @@ 2 :> 0),cell |-> <<3>>,valid |-> <<<<0>>, <<0>>>>,rec |-> <<1, 2>>,nrec |-> 2,plist |-> (0 :> {} @@ 1 :> {} @@ 2 :> {}),nextObj |-> 4,retired |-> <<<<1, 2>>, <<>>>>,mi |-> (0 :> 1 @@ 1 :> 1 @@ 2 :> 1),cc |-> <<1, 1>>,ret |-> <<0, 0>>,dcount |-> <<0, 0, 0, 0>>,kk |-> <<1, 1>>,owner |-> <<TRUE, TRUE>>,ci |-> <<1, 1>>,old |-> <<2, 0>>,ai |-> <<1, 1>>,list |-> <<2, 1>>,freeFlag |-> <<FALSE, FALSE>>,destroyed |-> FALSE,pc |-> (0 :> "M0" @@ 1 :> "C0" @@ 2 :> "P2"),ops |-> <<2, 1>>,ostate |-> <<"retired", "retired", "linked", "fresh">>,ri |-> (0 :> 1 @@ 1 :> 1 @@ 2 :> 1),keep |-> (0 :> <<>> @@ 1 :> <<>> @@ 2 :> <<>>),idx |-> (0 :> 1 @@ 1 :> 1 @@ 2 :> 1),snap |-> <<{}, {}>>]),
    ([cur |-> <<0, 2>>,hi |-> (0 :> 1 @@ 1 :> 1 @@ 2 :> 1),stack |-> (0 :> <<>> @@ 1 :> <<>> @@ 2 :> <<>>),hp |-> <<<<0>>, <<0>>>>,hr |-> (0 :> 1 @@ 1 :> 1 @@ 2 :> 1),fin |-> <<FALSE, FALSE>>,firstp |-> (0 :> 0 @@ 1 :> 0 @@ 2 :> 0),cell |-> <<3>>,valid |-> <<<<0>>, <<0>>>>,rec |-> <<1, 2>>,nrec |-> 2,plist |-> (0 :> {} @@ 1 :> {} @@ 2 :> {}),nextObj |-> 4,retired |-> <<<<1, 2>>, <<>>>>,mi |-> (0 :> 1 @@ 1 :> 1 @@ 2 :> 1),cc |-> <<1, 1>>,ret |-> <<0, 0>>,dcount |-> <<0, 0, 0, 0>>,kk |-> <<1, 1>>,owner |-> <<TRUE, TRUE>>,ci |-> <<1, 1>>,old |-> <<2, 0>>,ai |-> <<1, 1>>,list |-> <<2, 1>>,freeFlag |-> <<FALSE, FALSE>>,destroyed |-> FALSE,pc |-> (0 :> "M0" @@ 1 :> "D0" @@ 2 :> "P2"),ops |-> <<2, 1>>,ostate |-> <<"retired", "retired", "linked", "fresh">>,ri |-> (0 :> 1 @@ 1 :> 1 @@ 2 :> 1),keep |-> (0 :> <<>> @@ 1 :> <<>> @@ 2 :> <<>>),idx |-> (0 :> 1 @@ 1 :> 1 @@ 2 :> 1),snap |-> <<{}, {}>>]),
    ([cur |-> <<0, 2>>,hi |-> (0 :> 1 @@ 1 :> 1 @@ 2 :> 1),stack |-> (0 :> <<>> @@ 1 :> <<>> @@ 2 :> <<>>),hp |-> <<<<0>>, <<0>>>>,hr |-> (0 :> 1 @@ 1 :> 1 @@ 2 :> 1),fin |-> <<FALSE, FALSE>>,firstp |-> (0 :> 0 @@ 1 :> 0 @@ 2 :> 0),cell |-> <<3>>,valid |-> <<<<0>>, <<0>>>>,rec |-> <<1, 2>>,nrec |-> 2,plist |-> (0 :> {} @@ 1 :> {} @@ 2 :> {}),nextObj |-> 4,retired |-> <<<<1, 2>>, <<>>>>,mi |-> (0 :> 1 @@ 1 :> 1 @@ 2 :> 1),cc |-> <<1, 1>>,ret |-> <<0, 0>>,dcount |-> <<0, 0, 0, 0>>,kk |-> <<1, 1>>,owner |-> <<TRUE, TRUE>>,ci |-> <<1, 1>>,old |-> <<2, 0>>,ai |-> <<1, 1>>,list |-> <<2, 1>>,freeFlag |-> <<FALSE, FALSE>>,destroyed |-> FALSE,pc |-> (0 :> "M0" @@ 1 :> "D1" @@ 2 :> "P2"),ops |-> <<2, 1>>,ostate |-> <<"retired", "retired", "linked", "fresh">>,ri |-> (0 :> 1 @@ 1 :> 1 @@ 2 :> 1),keep |-> (0 :> <<>> @@ 1 :> <<>> @@ 2 :> <<>>),idx |-> (0 :> 1 @@ 1 :> 1 @@ 2 :> 1),snap |-> <<{}, {}>>]),
    ([cur |-> <<0, 2>>,hi |-> (0 :> 1 @@ 1 :> 1 @@ 2 :> 1),stack |-> (0 :> <<>> @@ 1 :> <<>> @@ 2 :> <<>>),hp |-> <<<<0>>, <<0>>>>,hr |-> (0 :> 1 @@ 1 :> 1 @@ 2 :> 1),fin |-> <<FALSE, FALSE>>,firstp |-> (0 :> 0 @@ 1 :> 0 @@ 2 :> 0),cell |-> <<3>>,valid |-> <<<<0>>, <<0>>>>,rec |-> <<1, 2>>,nrec |-> 2,plist |-> (0 :> {} @@ 1 :> {} @@ 2 :> {}),nextObj |-> 4,retired |-> <<<<1, 2>>, <<>>>>,mi |-> (0 :> 1 @@ 1 :> 1 @@ 2 :> 1),cc |-> <<1, 1>>,ret |-> <<0, 0>>,dcount |-> <<0, 0, 0, 0>>,kk |-> <<1, 1>>,owner |-> <<TRUE, TRUE>>,ci |-> <<2, 1>>,old |-> <<2, 0>>,ai |-> <<1, 1>>,list |-> <<2, 1>>,freeFlag |-> <<FALSE, FALSE>>,destroyed |-> FALSE,pc |-> (0 :> "M0" @@ 1 :> "D1" @@ 2 :> "P2"),ops |-> <<2, 1>>,ostate |-> <<"retired", "retired", "linked", "fresh">>,ri |-> (0 :> 1 @@ 1 :> 1 @@ 2 :> 1),keep |-> (0 :> <<>> @@ 1 :> <<>> @@ 2 :> <<>>),idx |-> (0 :> 1 @@ 1 :> 1 @@ 2 :> 1),snap |-> <<{}, {}>>]),
    ([cur |-> <<0, 2>>,hi |-> (0 :> 1 @@ 1 :> 1 @@ 2 :> 1),stack |-> (0 :> <<>> @@ 1 :> <<>> @@ 2 :> <<>>),hp |-> <<<<0>>, <<2>>>>,hr |-> (0 :> 1 @@ 1 :> 1 @@ 2 :> 1),fin |-> <<FALSE, FALSE>>,firstp |-> (0 :> 0 @@ 1 :> 0 @@ 2 :> 0),cell |-> <<3>>,valid |-> <<<<0>>, <<0>>>>,rec |-> <<1, 2>>,nrec |-> 2,plist |-> (0 :> {} @@ 1 :> {} @@ 2 :> {}),nextObj |-> 4,retired |-> <<<<1, 2>>, <<>>>>,mi |-> (0 :> 1 @@ 1 :> 1 @@ 2 :> 1),cc |-> <<1, 1>>,ret |-> <<0, 2>>,dcount |-> <<0, 0, 0, 0>>,kk |-> <<1, 1>>,owner |-> <<TRUE, TRUE>>,ci |-> <<2, 1>>,old |-> <<2, 0>>,ai |-> <<1, 1>>,list |-> <<2, 1>>,freeFlag |-> <<FALSE, FALSE>>,destroyed |-> FALSE,pc |-> (0 :> "M0" @@ 1 :> "D1" @@ 2 :> "P3"),ops |-> <<2, 1>>,ostate |-> <<"retired", "retired", "linked", "fresh">>,ri |-> (0 :> 1 @@ 1 :> 1 @@ 2 :> 1),keep |-> (0 :> <<>> @@ 1 :> <<>> @@ 2 :> <<>>),idx |-> (0 :> 1 @@ 1 :> 1 @@ 2 :> 1),snap |-> <<{}, {}>>]),
    ([cur |-> <<0, 2>>,hi |-> (0 :> 1 @@ 1 :> 1 @@ 2 :> 1),stack |-> (0 :> <<>> @@ 1 :> <<>> @@ 2 :> <<>>),hp |-> <<<<0>>, <<2>>>>,hr |-> (0 :> 1 @@ 1 :> 1 @@ 2 :> 1),fin |-> <<FALSE, FALSE>>,firstp |-> (0 :> 0 @@ 1 :> 0 @@ 2 :> 0),cell |-> <<3>>,valid |-> <<<<0>>, <<0>>>>,rec |-> <<1, 2>>,nrec |-> 2,plist |-> (0 :> {} @@ 1 :> {} @@ 2 :> {}),nextObj |-> 4,retired |-> <<<<1, 2>>, <<>>>>,mi |-> (0 :> 1 @@ 1 :> 1 @@ 2 :> 1),cc |-> <<1, 1>>,ret |-> <<0, 2>>,dcount |-> <<0, 0, 0, 0>>,kk |-> <<1, 1>>,owner |-> <<TRUE, TRUE>>,ci |-> <<2, 1>>,old |-> <<2, 0>>,ai |-> <<1, 1>>,list |-> <<2, 1>>,freeFlag |-> <<FALSE, FALSE>>,destroyed |-> FALSE,pc |-> (0 :> "M0" @@ 1 :> "D2" @@ 2 :> "P3"),ops |-> <<2, 1>>,ostate |-> <<"retired", "retired", "linked", "fresh">>,ri |-> (0 :> 1 @@ 1 :> 1 @@ 2 :> 1),keep |-> (0 :> <<>> @@ 1 :> <<>> @@ 2 :> <<>>),idx |-> (0 :> 1 @@ 1 :> 1 @@ 2 :> 1),snap |-> <<{}, {}>>]),
    ([cur |-> <<0, 2>>,hi |-> (0 :> 1 @@ 1 :> 1 @@ 2 :> 1),stack |-> (0 :> <<>> @@ 1 :> <<[pc |-> "D3", plist |-> {}, idx |-> 1, ri |-> 1, hi |-> 1, keep |-> <<>>, firstp |-> 0, procedure |-> "scan"]>> @@ 2 :> <<>>),hp |-> <<<<0>>, <<2>>>>,hr |-> (0 :> 1 @@ 1 :> 1 @@ 2 :> 1),fin |-> <<FALSE, FALSE>>,firstp |-> (0 :> 0 @@ 1 :> 0 @@ 2 :> 0),cell |-> <<3>>,valid |-> <<<<0>>, <<0>>>>,rec |-> <<1, 2>>,nrec |-> 2,plist |-> (0 :> {} @@ 1 :> {} @@ 2 :> {}),nextObj |-> 4,retired |-> <<<<1, 2>>, <<>>>>,mi |-> (0 :> 1 @@ 1 :> 1 @@ 2 :> 1),cc |-> <<1, 1>>,ret |-> <<0, 2>>,dcount |-> <<0, 0, 0, 0>>,kk |-> <<1, 1>>,owner |-> <<TRUE, TRUE>>,ci |-> <<2, 1>>,old |-> <<2, 0>>,ai |-> <<1, 1>>,list |-> <<2, 1>>,freeFlag |-> <<FALSE, FALSE>>,destroyed |-> FALSE,pc |-> (0 :> "M0" @@ 1 :> "SC0" @@ 2 :> "P3"),ops |-> <<2, 1>>,ostate |-> <<"retired", "retired", "linked", "fresh">>,ri |-> (0 :> 1 @@ 1 :> 1 @@ 2 :> 1),keep |-> (0 :> <<>> @@ 1 :> <<>> @@ 2 :> <<>>),idx |-> (0 :> 1 @@ 1 :> 1 @@ 2 :> 1),snap |-> <<{}, {}>>]),
    ([cur |-> <<0, 2>>,hi |-> (0 :> 1 @@ 1 :> 1 @@ 2 :> 1),stack |-> (0 :> <<>> @@ 1 :> <<[pc |-> "D3", plist |-> {}, idx |-> 1, ri |-> 1, hi |-> 1, keep |-> <<>>, firstp |-> 0, procedure |-> "scan"]>> @@ 2 :> <<>>),hp |-> <<<<0>>, <<2>>>>,hr |-> (0 :> 1 @@ 1 :> 1 @@ 2 :> 1),fin |-> <<FALSE, FALSE>>,firstp |-> (0 :> 0 @@ 1 :> 0 @@ 2 :> 0),cell |-> <<3>>,valid |-> <<<<0>>, <<0>>>>,rec |-> <<1, 2>>,nrec |-> 2,plist |-> (0 :> {} @@ 1 :> {} @@ 2 :> {}),nextObj |-> 4,retired |-> <<<<1, 2>>, <<>>>>,mi |-> (0 :> 1 @@ 1 :> 1 @@ 2 :> 1),cc |-> <<1, 1>>,ret |-> <<0, 2>>,dcount |-> <<0, 0, 0, 0>>,kk |-> <<1, 1>>,owner |-> <<TRUE, TRUE>>,ci |-> <<2, 1>>,old |-> <<2, 0>>,ai |-> <<1, 1>>,list |-> <<2, 1>>,freeFlag |-> <<FALSE, FALSE>>,destroyed |-> FALSE,pc |-> (0 :> "M0" @@ 1 :> "SC1" @@ 2 :> "P3"),ops |-> <<2, 1>>,ostate |-> <<"retired", "retired", "linked", "fresh">>,ri |-> (0 :> 1 @@ 1 :> 1 @@ 2 :> 1),keep |-> (0 :> <<>> @@ 1 :> <<>> @@ 2 :> <<>>),idx |-> (0 :> 1 @@ 1 :> 1 @@ 2 :> 1),snap |-> <<{<<2, 1, 2>>}, {}>>]),
    ([cur |-> <<0, 2>>,hi |-> (0 :> 1 @@ 1 :> 1 @@ 2 :> 1),stack |-> (0 :> <<>> @@ 1 :> <<[pc |-> "D3", plist |-> {}, idx |-> 1, ri |-> 1, hi |-> 1, keep |-> <<>>, firstp |-> 0, procedure |-> "scan"]>> @@ 2 :> <<>>),hp |-> <<<<0>>, <<2>>>>,hr |-> (0 :> 1 @@ 1 :> 1 @@ 2 :> 1),fin |-> <<FALSE, FALSE>>,firstp |-> (0 :> 0 @@ 1 :> 0 @@ 2 :> 0),cell |-> <<3>>,valid |-> <<<<0>>, <<0>>>>,rec |-> <<1, 2>>,nrec |-> 2,plist |-> (0 :> {} @@ 1 :> {} @@ 2 :> {}),nextObj |-> 4,retired |-> <<<<1, 2>>, <<>>>>,mi |-> (0 :> 1 @@ 1 :> 1 @@ 2 :> 1),cc |-> <<1, 1>>,ret |-> <<0, 2>>,dcount |-> <<0, 0, 0, 0>>,kk |-> <<1, 1>>,owner |-> <<TRUE, TRUE>>,ci |-> <<2, 1>>,old |-> <<2, 0>>,ai |-> <<1, 1>>,list |-> <<2, 1>>,freeFlag |-> <<FALSE, FALSE>>,destroyed |-> FALSE,pc |-> (0 :> "M0" @@ 1 :> "SC2" @@ 2 :> "P3"),ops |-> <<2, 1>>,ostate |-> <<"retired", "retired", "linked", "fresh">>,ri |-> (0 :> 1 @@ 1 :> 1 @@ 2 :> 1),keep |-> (0 :> <<>> @@ 1 :> <<>> @@ 2 :> <<>>),idx |-> (0 :> 1 @@ 1 :> 1 @@ 2 :> 1),snap |-> <<{<<2, 1, 2>>}, {}>>]),
    ([cur |-> <<0, 2>>,hi |-> (0 :> 1 @@ 1 :> 2 @@ 2 :> 1),stack |-> (0 :> <<>> @@ 1 :> <<[pc |-> "D3", plist |-> {}, idx |-> 1, ri |-> 1, hi |-> 1, keep |-> <<>>, firstp |-> 0, procedure |-> "scan"]>> @@ 2 :> <<>>),hp |-> <<<<0>>, <<2>>>>,hr |-> (0 :> 1 @@ 1 :> 1 @@ 2 :> 1),fin |-> <<FALSE, FALSE>>,firstp |-> (0 :> 0 @@ 1 :> 0 @@ 2 :> 0),cell |-> <<3>>,valid |-> <<<<0>>, <<0>>>>,rec |-> <<1, 2>>,nrec |-> 2,plist |-> (0 :> {} @@ 1 :> {2} @@ 2 :> {}),nextObj |-> 4,retired |-> <<<<1, 2>>, <<>>>>,mi |-> (0 :> 1 @@ 1 :> 1 @@ 2 :> 1),cc |-> <<1, 1>>,ret |-> <<0, 2>>,dcount |-> <<0, 0, 0, 0>>,kk |-> <<1, 1>>,owner |-> <<TRUE, TRUE>>,ci |-> <<2, 1>>,old |-> <<2, 0>>,ai |-> <<1, 1>>,list |-> <<2, 1>>,freeFlag |-> <<FALSE, FALSE>>,destroyed |-> FALSE,pc |-> (0 :> "M0" @@ 1 :> "SC2" @@ 2 :> "P3"),ops |-> <<2, 1>>,ostate |-> <<"retired", "retired", "linked", "fresh">>,ri |-> (0 :> 1 @@ 1 :> 1 @@ 2 :> 1),keep |-> (0 :> <<>> @@ 1 :> <<>> @@ 2 :> <<>>),idx |-> (0 :> 1 @@ 1 :> 1 @@ 2 :> 1),snap |-> <<{<<2, 1, 2>>}, {}>>]),
    ([cur |-> <<0, 2>>,hi |-> (0 :> 1 @@ 1 :> 2 @@ 2 :> 1),stack |-> (0 :> <<>> @@ 1 :> <<[pc |-> "D3", plist |-> {}, idx |-> 1, ri |-> 1, hi |-> 1, keep |-> <<>>, firstp |-> 0, procedure |-> "scan"]>> @@ 2 :> <<>>),hp |-> <<<<0>>, <<2>>>>,hr |-> (0 :> 1 @@ 1 :> 1 @@ 2 :> 1),fin |-> <<FALSE, FALSE>>,firstp |-> (0 :> 0 @@ 1 :> 0 @@ 2 :> 0),cell |-> <<3>>,valid |-> <<<<0>>, <<0>>>>,rec |-> <<1, 2>>,nrec |-> 2,plist |-> (0 :> {} @@ 1 :> {2} @@ 2 :> {}),nextObj |-> 4,retired |-> <<<<1, 2>>, <<>>>>,mi |-> (0 :> 1 @@ 1 :> 1 @@ 2 :> 1),cc |-> <<1, 1>>,ret |-> <<0, 2>>,dcount |-> <<0, 0, 0, 0>>,kk |-> <<1, 1>>,owner |-> <<TRUE, TRUE>>,ci |-> <<2, 1>>,old |-> <<2, 0>>,ai |-> <<1, 1>>,list |-> <<2, 1>>,freeFlag |-> <<FALSE, FALSE>>,destroyed |-> FALSE,pc |-> (0 :> "M0" @@ 1 :> "SC3" @@ 2 :> "P3"),ops |-> <<2, 1>>,ostate |-> <<"retired", "retired", "linked", "fresh">>,ri |-> (0 :> 1 @@ 1 :> 1 @@ 2 :> 1),keep |-> (0 :> <<>> @@ 1 :> <<>> @@ 2 :> <<>>),idx |-> (0 :> 1 @@ 1 :> 1 @@ 2 :> 1),snap |-> <<{<<2, 1, 2>>}, {}>>]),
    ([cur |-> <<0, 2>>,hi |-> (0 :> 1 @@ 1 :> 2 @@ 2 :> 1),stack |-> (0 :> <<>> @@ 1 :> <<[pc |-> "D3", plist |-> {}, idx |-> 1, ri |-> 1, hi |-> 1, keep |-> <<>>, firstp |-> 0, procedure |-> "scan"]>> @@ 2 :> <<>>),hp |-> <<<<0>>, <<2>>>>,hr |-> (0 :> 1 @@ 1 :> 1 @@ 2 :> 1),fin |-> <<FALSE, FALSE>>,firstp |-> (0 :> 0 @@ 1 :> 0 @@ 2 :> 0),cell |-> <<3>>,valid |-> <<<<0>>, <<0>>>>,rec |-> <<1, 2>>,nrec |-> 2,plist |-> (0 :> {} @@ 1 :> {2} @@ 2 :> {}),nextObj |-> 4,retired |-> <<<<1, 2>>, <<>>>>,mi |-> (0 :> 1 @@ 1 :> 1 @@ 2 :> 1),cc |-> <<1, 1>>,ret |-> <<0, 2>>,dcount |-> <<0, 0, 0, 0>>,kk |-> <<1, 1>>,owner |-> <<TRUE, TRUE>>,ci |-> <<2, 1>>,old |-> <<2, 0>>,ai |-> <<1, 1>>,list |-> <<2, 1>>,freeFlag |-> <<FALSE, FALSE>>,destroyed |-> FALSE,pc |-> (0 :> "M0" @@ 1 :> "SC1" @@ 2 :> "P3"),ops |-> <<2, 1>>,ostate |-> <<"retired", "retired", "linked", "fresh">>,ri |-> (0 :> 1 @@ 1 :> 2 @@ 2 :> 1),keep |-> (0 :> <<>> @@ 1 :> <<>> @@ 2 :> <<>>),idx |-> (0 :> 1 @@ 1 :> 1 @@ 2 :> 1),snap |-> <<{<<2, 1, 2>>}, {}>>]),
    ([cur |-> <<0, 2>>,hi |-> (0 :> 1 @@ 1 :> 1 @@ 2 :> 1),stack |-> (0 :> <<>> @@ 1 :> <<[pc |-> "D3", plist |-> {}, idx |-> 1, ri |-> 1, hi |-> 1, keep |-> <<>>, firstp |-> 0, procedure |-> "scan"]>> @@ 2 :> <<>>),hp |-> <<<<0>>, <<2>>>>,hr |-> (0 :> 1 @@ 1 :> 1 @@ 2 :> 1),fin |-> <<FALSE, FALSE>>,firstp |-> (0 :> 0 @@ 1 :> 0 @@ 2 :> 0),cell |-> <<3>>,valid |-> <<<<0>>, <<0>>>>,rec |-> <<1, 2>>,nrec |-> 2,plist |-> (0 :> {} @@ 1 :> {2} @@ 2 :> {}),nextObj |-> 4,retired |-> <<<<1, 2>>, <<>>>>,mi |-> (0 :> 1 @@ 1 :> 1 @@ 2 :> 1),cc |-> <<1, 1>>,ret |-> <<0, 2>>,dcount |-> <<0, 0, 0, 0>>,kk |-> <<1, 1>>,owner |-> <<TRUE, TRUE>>,ci |-> <<2, 1>>,old |-> <<2, 0>>,ai |-> <<1, 1>>,list |-> <<2, 1>>,freeFlag |-> <<FALSE, FALSE>>,destroyed |-> FALSE,pc |-> (0 :> "M0" @@ 1 :> "SC2" @@ 2 :> "P3"),ops |-> <<2, 1>>,ostate |-> <<"retired", "retired", "linked", "fresh">>,ri |-> (0 :> 1 @@ 1 :> 2 @@ 2 :> 1),keep |-> (0 :> <<>> @@ 1 :> <<>> @@ 2 :> <<>>),idx |-> (0 :> 1 @@ 1 :> 1 @@ 2 :> 1),snap |-> <<{<<2, 1, 2>>}, {}>>]),
    ([cur |-> <<0, 2>>,hi |-> (0 :> 1 @@ 1 :> 2 @@ 2 :> 1),stack |-> (0 :> <<>> @@ 1 :> <<[pc |-> "D3", plist |-> {}, idx |-> 1, ri |-> 1, hi |-> 1, keep |-> <<>>, firstp |-> 0, procedure |-> "scan"]>> @@ 2 :> <<>>),hp |-> <<<<0>>, <<2>>>>,hr |-> (0 :> 1 @@ 1 :> 1 @@ 2 :> 1),fin |-> <<FALSE, FALSE>>,firstp |-> (0 :> 0 @@ 1 :> 0 @@ 2 :> 0),cell |-> <<3>>,valid |-> <<<<0>>, <<0>>>>,rec |-> <<1, 2>>,nrec |-> 2,plist |-> (0 :> {} @@ 1 :> {2} @@ 2 :> {}),nextObj |-> 4,retired |-> <<<<1, 2>>, <<>>>>,mi |-> (0 :> 1 @@ 1 :> 1 @@ 2 :> 1),cc |-> <<1, 1>>,ret |-> <<0, 2>>,dcount |-> <<0, 0, 0, 0>>,kk |-> <<1, 1>>,owner |-> <<TRUE, TRUE>>,ci |-> <<2, 1>>,old |-> <<2, 0>>,ai |-> <<1, 1>>,list |-> <<2, 1>>,freeFlag |-> <<FALSE, FALSE>>,destroyed |-> FALSE,pc |-> (0 :> "M0" @@ 1 :> "SC2" @@ 2 :> "P3"),ops |-> <<2, 1>>,ostate |-> <<"retired", "retired", "linked", "fresh">>,ri |-> (0 :> 1 @@ 1 :> 2 @@ 2 :> 1),keep |-> (0 :> <<>> @@ 1 :> <<>> @@ 2 :> <<>>),idx |-> (0 :> 1 @@ 1 :> 1 @@ 2 :> 1),snap |-> <<{<<2, 1, 2>>}, {}>>]),
    ([cur |-> <<0, 2>>,hi |-> (0 :> 1 @@ 1 :> 2 @@ 2 :> 1),stack |-> (0 :> <<>> @@ 1 :> <<[pc |-> "D3", plist |-> {}, idx |-> 1, ri |-> 1, hi |-> 1, keep |-> <<>>, firstp |-> 0, procedure |-> "scan"]>> @@ 2 :> <<>>),hp |-> <<<<0>>, <<2>>>>,hr |-> (0 :> 1 @@ 1 :> 1 @@ 2 :> 1),fin |-> <<FALSE, FALSE>>,firstp |-> (0 :> 0 @@ 1 :> 0 @@ 2 :> 0),cell |-> <<3>>,valid |-> <<<<0>>, <<0>>>>,rec |-> <<1, 2>>,nrec |-> 2,plist |-> (0 :> {} @@ 1 :> {2} @@ 2 :> {}),nextObj |-> 4,retired |-> <<<<1, 2>>, <<>>>>,mi |-> (0 :> 1 @@ 1 :> 1 @@ 2 :> 1),cc |-> <<1, 1>>,ret |-> <<0, 2>>,dcount |-> <<0, 0, 0, 0>>,kk |-> <<1, 1>>,owner |-> <<TRUE, TRUE>>,ci |-> <<2, 1>>,old |-> <<2, 0>>,ai |-> <<1, 1>>,list |-> <<2, 1>>,freeFlag |-> <<FALSE, FALSE>>,destroyed |-> FALSE,pc |-> (0 :> "M0" @@ 1 :> "SC3" @@ 2 :> "P3"),ops |-> <<2, 1>>,ostate |-> <<"retired", "retired", "linked", "fresh">>,ri |-> (0 :> 1 @@ 1 :> 2 @@ 2 :> 1),keep |-> (0 :> <<>> @@ 1 :> <<>> @@ 2 :> <<>>),idx |-> (0 :> 1 @@ 1 :> 1 @@ 2 :> 1),snap |-> <<{<<2, 1, 2>>}, {}>>]),
    ([cur |-> <<0, 2>>,hi |-> (0 :> 1 @@ 1 :> 2 @@ 2 :> 1),stack |-> (0 :> <<>> @@ 1 :> <<[pc |-> "D3", plist |-> {}, idx |-> 1, ri |-> 1, hi |-> 1, keep |-> <<>>, firstp |-> 0, procedure |-> "scan"]>> @@ 2 :> <<>>),hp |-> <<<<0>>, <<2>>>>,hr |-> (0 :> 1 @@ 1 :> 1 @@ 2 :> 1),fin |-> <<FALSE, FALSE>>,firstp |-> (0 :> 0 @@ 1 :> 0 @@ 2 :> 0),cell |-> <<3>>,valid |-> <<<<0>>, <<0>>>>,rec |-> <<1, 2>>,nrec |-> 2,plist |-> (0 :> {} @@ 1 :> {2} @@ 2 :> {}),nextObj |-> 4,retired |-> <<<<1, 2>>, <<>>>>,mi |-> (0 :> 1 @@ 1 :> 1 @@ 2 :> 1),cc |-> <<1, 1>>,ret |-> <<0, 2>>,dcount |-> <<0, 0, 0, 0>>,kk |-> <<1, 1>>,owner |-> <<TRUE, TRUE>>,ci |-> <<2, 1>>,old |-> <<2, 0>>,ai |-> <<1, 1>>,list |-> <<2, 1>>,freeFlag |-> <<FALSE, FALSE>>,destroyed |-> FALSE,pc |-> (0 :> "M0" @@ 1 :> "SC1" @@ 2 :> "P3"),ops |-> <<2, 1>>,ostate |-> <<"retired", "retired", "linked", "fresh">>,ri |-> (0 :> 1 @@ 1 :> 3 @@ 2 :> 1),keep |-> (0 :> <<>> @@ 1 :> <<>> @@ 2 :> <<>>),idx |-> (0 :> 1 @@ 1 :> 1 @@ 2 :> 1),snap |-> <<{<<2, 1, 2>>}, {}>>]),
    ([cur |-> <<0, 2>>,hi |-> (0 :> 1 @@ 1 :> 2 @@ 2 :> 1),stack |-> (0 :> <<>> @@ 1 :> <<[pc |-> "D3", plist |-> {}, idx |-> 1, ri |-> 1, hi |-> 1, keep |-> <<>>, firstp |-> 0, procedure |-> "scan"]>> @@ 2 :> <<>>),hp |-> <<<<0>>, <<2>>>>,hr |-> (0 :> 1 @@ 1 :> 1 @@ 2 :> 1),fin |-> <<FALSE, FALSE>>,firstp |-> (0 :> 0 @@ 1 :> 0 @@ 2 :> 0),cell |-> <<3>>,valid |-> <<<<0>>, <<0>>>>,rec |-> <<1, 2>>,nrec |-> 2,plist |-> (0 :> {} @@ 1 :> {2} @@ 2 :> {}),nextObj |-> 4,retired |-> <<<<1, 2>>, <<>>>>,mi |-> (0 :> 1 @@ 1 :> 1 @@ 2 :> 1),cc |-> <<1, 1>>,ret |-> <<0, 2>>,dcount |-> <<0, 0, 0, 0>>,kk |-> <<1, 1>>,owner |-> <<TRUE, TRUE>>,ci |-> <<2, 1>>,old |-> <<2, 0>>,ai |-> <<1, 1>>,list |-> <<2, 1>>,freeFlag |-> <<FALSE, FALSE>>,destroyed |-> FALSE,pc |-> (0 :> "M0" @@ 1 :> "SC4" @@ 2 :> "P3"),ops |-> <<2, 1>>,ostate |-> <<"retired", "retired", "linked", "fresh">>,ri |-> (0 :> 1 @@ 1 :> 3 @@ 2 :> 1),keep |-> (0 :> <<>> @@ 1 :> <<>> @@ 2 :> <<>>),idx |-> (0 :> 1 @@ 1 :> 1 @@ 2 :> 1),snap |-> <<{<<2, 1, 2>>}, {}>>]),
    ([cur |-> <<0, 2>>,hi |-> (0 :> 1 @@ 1 :> 2 @@ 2 :> 1),stack |-> (0 :> <<>> @@ 1 :> <<[pc |-> "D3", plist |-> {}, idx |-> 1, ri |-> 1, hi |-> 1, keep |-> <<>>, firstp |-> 0, procedure |-> "scan"]>> @@ 2 :> <<>>),hp |-> <<<<0>>, <<2>>>>,hr |-> (0 :> 1 @@ 1 :> 1 @@ 2 :> 1),fin |-> <<FALSE, FALSE>>,firstp |-> (0 :> 0 @@ 1 :> 1 @@ 2 :> 0),cell |-> <<3>>,valid |-> <<<<0>>, <<0>>>>,rec |-> <<1, 2>>,nrec |-> 2,plist |-> (0 :> {} @@ 1 :> {2} @@ 2 :> {}),nextObj |-> 4,retired |-> <<<<1, 2>>, <<>>>>,mi |-> (0 :> 1 @@ 1 :> 1 @@ 2 :> 1),cc |-> <<1, 1>>,ret |-> <<0, 2>>,dcount |-> <<0, 0, 0, 0>>,kk |-> <<1, 1>>,owner |-> <<TRUE, TRUE>>,ci |-> <<2, 1>>,old |-> <<2, 0>>,ai |-> <<1, 1>>,list |-> <<2, 1>>,freeFlag |-> <<FALSE, FALSE>>,destroyed |-> FALSE,pc |-> (0 :> "M0" @@ 1 :> "SC5" @@ 2 :> "P3"),ops |-> <<2, 1>>,ostate |-> <<"retired", "retired", "linked", "fresh">>,ri |-> (0 :> 1 @@ 1 :> 3 @@ 2 :> 1),keep |-> (0 :> <<>> @@ 1 :> <<>> @@ 2 :> <<>>),idx |-> (0 :> 1 @@ 1 :> 1 @@ 2 :> 1),snap |-> <<{<<2, 1, 2>>}, {}>>]),
    ([cur |-> <<0, 2>>,hi |-> (0 :> 1 @@ 1 :> 2 @@ 2 :> 1),stack |-> (0 :> <<>> @@ 1 :> <<[pc |-> "D3", plist |-> {}, idx |-> 1, ri |-> 1, hi |-> 1, keep |-> <<>>, firstp |-> 0, procedure |-> "scan"]>> @@ 2 :> <<>>),hp |-> <<<<0>>, <<2>>>>,hr |-> (0 :> 1 @@ 1 :> 1 @@ 2 :> 1),fin |-> <<FALSE, FALSE>>,firstp |-> (0 :> 0 @@ 1 :> 1 @@ 2 :> 0),cell |-> <<3>>,valid |-> <<<<0>>, <<0>>>>,rec |-> <<1, 2>>,nrec |-> 2,plist |-> (0 :> {} @@ 1 :> {2} @@ 2 :> {}),nextObj |-> 4,retired |-> <<<<1, 2>>, <<>>>>,mi |-> (0 :> 1 @@ 1 :> 1 @@ 2 :> 1),cc |-> <<1, 1>>,ret |-> <<0, 2>>,dcount |-> <<1, 0, 0, 0>>,kk |-> <<1, 1>>,owner |-> <<TRUE, TRUE>>,ci |-> <<2, 1>>,old |-> <<2, 0>>,ai |-> <<1, 1>>,list |-> <<2, 1>>,freeFlag |-> <<FALSE, FALSE>>,destroyed |-> FALSE,pc |-> (0 :> "M0" @@ 1 :> "SC5" @@ 2 :> "P3"),ops |-> <<2, 1>>,ostate |-> <<"disposed", "retired", "linked", "fresh">>,ri |-> (0 :> 1 @@ 1 :> 3 @@ 2 :> 1),keep |-> (0 :> <<>> @@ 1 :> <<>> @@ 2 :> <<>>),idx |-> (0 :> 1 @@ 1 :> 2 @@ 2 :> 1),snap |-> <<{<<2, 1, 2>>}, {}>>])
    >>
----


=============================================================================

---- CONFIG HPMC_TTrace_1790083009 ----
CONSTANTS
    Threads = { 1 , 2 }
    K = 1
    R = 3
    NObj = 4
    NCell = 1
    MaxOps = 2
    ScanBug = TRUE

INVARIANT
    _inv

CHECK_DEADLOCK
    \* CHECK_DEADLOCK off because of PROPERTY or INVARIANT above.
    FALSE

INIT
    _init

NEXT
    _next

CONSTANT
    _TETrace <- _trace

ALIAS
    _expression
=============================================================================
\* Generated on Tue Sep 22 13:17:49 UTC 2026