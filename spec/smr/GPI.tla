---- MODULE GPI ----
\* prototype: general_instant URCU, one label per modelled access
EXTENDS Naturals, Sequences, FiniteSets, TLC
CONSTANTS Readers, Writers, Flips, RIter, WIter, Order
Threads == Readers \cup Writers
NULL == 0
(* --algorithm GPI {
variables
  g = [ph |-> 0, n |-> 1],
  c = [t \in Threads |-> [ph |-> 0, n |-> 0]],
  lockOwner = NULL,
  cell = 1, nextObj = 2,
  disposed = {},
  acc = [t |-> 0, k |-> "none", loc |-> "", a |-> 0, b |-> 0];

define { CtlVal(w) == w.ph * 1000 + w.n }

macro Acc(kk, l, x, y) { acc := [t |-> self, k |-> kk, loc |-> l, a |-> x, b |-> y]; }

procedure flip_and_wait()
  variables ri = 1, v = [ph |-> 0, n |-> 0];
{
F1: Acc("fxor", "g", CtlVal(g), 0); g := [g EXCEPT !.ph = 1 - g.ph];
F2: Acc("load", "tlist", 0, 0); ri := 1;
F3: while (ri <= Len(Order)) {
      Acc("load", "tid", Order[ri], 0);
F4:   v := c[Order[ri]]; Acc("load", "c", Order[ri], CtlVal(c[Order[ri]]));
      if (v.n # 0) {
F5:     Acc("load", "g", CtlVal(g), 0);
        if (v.ph # g.ph) {
F6:       Acc("yield", "", 0, 0);
          goto F3;
        };
      };
F7:   ri := ri + 1;
    };
    return;
}

process (W \in Writers)
  variables wi = 0, old = NULL, fl = 0;
{
W0: while (wi < WIter) {
      wi := wi + 1;
W1:   Acc("xchg", "cell", cell, nextObj); old := cell; cell := nextObj; nextObj := nextObj + 1;
W2:   await lockOwner = NULL; lockOwner := self; Acc("lock", "m", 0, 0);
      fl := 0;
W3:   while (fl < Flips) { fl := fl + 1; call flip_and_wait(); };
W4:   lockOwner := NULL; Acc("unlock", "m", 0, 0);
W5:   disposed := disposed \cup {old}; Acc("dispose", "", old, 0);
    };
}

process (Rd \in Readers)
  variables it = 0, tmp = [ph |-> 0, n |-> 0], gl = [ph |-> 0, n |-> 0], p = NULL;
{
R0: while (it < RIter) {
      it := it + 1;
R1:   tmp := c[self]; Acc("load", "c", self, CtlVal(c[self]));
R2:   gl := g; Acc("load", "g", CtlVal(g), 0);
R3:   c[self] := gl; Acc("store", "c", self, CtlVal(gl));
R4:   p := cell; Acc("load", "cell", cell, 0);
R5:   assert p \notin disposed; Acc("deref", "", p, 0);
R6:   tmp := c[self]; Acc("load", "c", self, CtlVal(c[self]));
R7:   c[self] := [tmp EXCEPT !.n = tmp.n - 1]; Acc("store", "c", self, CtlVal([tmp EXCEPT !.n = tmp.n - 1]));
    };
}
} *)
\* BEGIN TRANSLATION (chksum(pcal) = "b7440186" /\ chksum(tla) = "d9cb8856")
VARIABLES pc, g, c, lockOwner, cell, nextObj, disposed, acc, stack

(* define statement *)
CtlVal(w) == w.ph * 1000 + w.n

VARIABLES ri, v, wi, old, fl, it, tmp, gl, p

vars == << pc, g, c, lockOwner, cell, nextObj, disposed, acc, stack, ri, v, 
           wi, old, fl, it, tmp, gl, p >>

ProcSet == (Writers) \cup (Readers)

Init == (* Global variables *)
        /\ g = [ph |-> 0, n |-> 1]
        /\ c = [t \in Threads |-> [ph |-> 0, n |-> 0]]
        /\ lockOwner = NULL
        /\ cell = 1
        /\ nextObj = 2
        /\ disposed = {}
        /\ acc = [t |-> 0, k |-> "none", loc |-> "", a |-> 0, b |-> 0]
        (* Procedure flip_and_wait *)
        /\ ri = [ self \in ProcSet |-> 1]
        /\ v = [ self \in ProcSet |-> [ph |-> 0, n |-> 0]]
        (* Process W *)
        /\ wi = [self \in Writers |-> 0]
        /\ old = [self \in Writers |-> NULL]
        /\ fl = [self \in Writers |-> 0]
        (* Process Rd *)
        /\ it = [self \in Readers |-> 0]
        /\ tmp = [self \in Readers |-> [ph |-> 0, n |-> 0]]
        /\ gl = [self \in Readers |-> [ph |-> 0, n |-> 0]]
        /\ p = [self \in Readers |-> NULL]
        /\ stack = [self \in ProcSet |-> << >>]
        /\ pc = [self \in ProcSet |-> CASE self \in Writers -> "W0"
                                        [] self \in Readers -> "R0"]

F1(self) == /\ pc[self] = "F1"
            /\ acc' = [t |-> self, k |-> "fxor", loc |-> "g", a |-> (CtlVal(g)), b |-> 0]
            /\ g' = [g EXCEPT !.ph = 1 - g.ph]
            /\ pc' = [pc EXCEPT ![self] = "F2"]
            /\ UNCHANGED << c, lockOwner, cell, nextObj, disposed, stack, ri, 
                            v, wi, old, fl, it, tmp, gl, p >>

F2(self) == /\ pc[self] = "F2"
            /\ acc' = [t |-> self, k |-> "load", loc |-> "tlist", a |-> 0, b |-> 0]
            /\ ri' = [ri EXCEPT ![self] = 1]
            /\ pc' = [pc EXCEPT ![self] = "F3"]
            /\ UNCHANGED << g, c, lockOwner, cell, nextObj, disposed, stack, v, 
                            wi, old, fl, it, tmp, gl, p >>

F3(self) == /\ pc[self] = "F3"
            /\ IF ri[self] <= Len(Order)
                  THEN /\ acc' = [t |-> self, k |-> "load", loc |-> "tid", a |-> (Order[ri[self]]), b |-> 0]
                       /\ pc' = [pc EXCEPT ![self] = "F4"]
                       /\ UNCHANGED << stack, ri, v >>
                  ELSE /\ pc' = [pc EXCEPT ![self] = Head(stack[self]).pc]
                       /\ ri' = [ri EXCEPT ![self] = Head(stack[self]).ri]
                       /\ v' = [v EXCEPT ![self] = Head(stack[self]).v]
                       /\ stack' = [stack EXCEPT ![self] = Tail(stack[self])]
                       /\ acc' = acc
            /\ UNCHANGED << g, c, lockOwner, cell, nextObj, disposed, wi, old, 
                            fl, it, tmp, gl, p >>

F4(self) == /\ pc[self] = "F4"
            /\ v' = [v EXCEPT ![self] = c[Order[ri[self]]]]
            /\ acc' = [t |-> self, k |-> "load", loc |-> "c", a |-> (Order[ri[self]]), b |-> (CtlVal(c[Order[ri[self]]]))]
            /\ IF v'[self].n # 0
                  THEN /\ pc' = [pc EXCEPT ![self] = "F5"]
                  ELSE /\ pc' = [pc EXCEPT ![self] = "F7"]
            /\ UNCHANGED << g, c, lockOwner, cell, nextObj, disposed, stack, 
                            ri, wi, old, fl, it, tmp, gl, p >>

F5(self) == /\ pc[self] = "F5"
            /\ acc' = [t |-> self, k |-> "load", loc |-> "g", a |-> (CtlVal(g)), b |-> 0]
            /\ IF v[self].ph # g.ph
                  THEN /\ pc' = [pc EXCEPT ![self] = "F6"]
                  ELSE /\ pc' = [pc EXCEPT ![self] = "F7"]
            /\ UNCHANGED << g, c, lockOwner, cell, nextObj, disposed, stack, 
                            ri, v, wi, old, fl, it, tmp, gl, p >>

F6(self) == /\ pc[self] = "F6"
            /\ acc' = [t |-> self, k |-> "yield", loc |-> "", a |-> 0, b |-> 0]
            /\ pc' = [pc EXCEPT ![self] = "F3"]
            /\ UNCHANGED << g, c, lockOwner, cell, nextObj, disposed, stack, 
                            ri, v, wi, old, fl, it, tmp, gl, p >>

F7(self) == /\ pc[self] = "F7"
            /\ ri' = [ri EXCEPT ![self] = ri[self] + 1]
            /\ pc' = [pc EXCEPT ![self] = "F3"]
            /\ UNCHANGED << g, c, lockOwner, cell, nextObj, disposed, acc, 
                            stack, v, wi, old, fl, it, tmp, gl, p >>

flip_and_wait(self) == F1(self) \/ F2(self) \/ F3(self) \/ F4(self)
                          \/ F5(self) \/ F6(self) \/ F7(self)

W0(self) == /\ pc[self] = "W0"
            /\ IF wi[self] < WIter
                  THEN /\ wi' = [wi EXCEPT ![self] = wi[self] + 1]
                       /\ pc' = [pc EXCEPT ![self] = "W1"]
                  ELSE /\ pc' = [pc EXCEPT ![self] = "Done"]
                       /\ wi' = wi
            /\ UNCHANGED << g, c, lockOwner, cell, nextObj, disposed, acc, 
                            stack, ri, v, old, fl, it, tmp, gl, p >>

W1(self) == /\ pc[self] = "W1"
            /\ acc' = [t |-> self, k |-> "xchg", loc |-> "cell", a |-> cell, b |-> nextObj]
            /\ old' = [old EXCEPT ![self] = cell]
            /\ cell' = nextObj
            /\ nextObj' = nextObj + 1
            /\ pc' = [pc EXCEPT ![self] = "W2"]
            /\ UNCHANGED << g, c, lockOwner, disposed, stack, ri, v, wi, fl, 
                            it, tmp, gl, p >>

W2(self) == /\ pc[self] = "W2"
            /\ lockOwner = NULL
            /\ lockOwner' = self
            /\ acc' = [t |-> self, k |-> "lock", loc |-> "m", a |-> 0, b |-> 0]
            /\ fl' = [fl EXCEPT ![self] = 0]
            /\ pc' = [pc EXCEPT ![self] = "W3"]
            /\ UNCHANGED << g, c, cell, nextObj, disposed, stack, ri, v, wi, 
                            old, it, tmp, gl, p >>

W3(self) == /\ pc[self] = "W3"
            /\ IF fl[self] < Flips
                  THEN /\ fl' = [fl EXCEPT ![self] = fl[self] + 1]
                       /\ stack' = [stack EXCEPT ![self] = << [ procedure |->  "flip_and_wait",
                                                                pc        |->  "W3",
                                                                ri        |->  ri[self],
                                                                v         |->  v[self] ] >>
                                                            \o stack[self]]
                       /\ ri' = [ri EXCEPT ![self] = 1]
                       /\ v' = [v EXCEPT ![self] = [ph |-> 0, n |-> 0]]
                       /\ pc' = [pc EXCEPT ![self] = "F1"]
                  ELSE /\ pc' = [pc EXCEPT ![self] = "W4"]
                       /\ UNCHANGED << stack, ri, v, fl >>
            /\ UNCHANGED << g, c, lockOwner, cell, nextObj, disposed, acc, wi, 
                            old, it, tmp, gl, p >>

W4(self) == /\ pc[self] = "W4"
            /\ lockOwner' = NULL
            /\ acc' = [t |-> self, k |-> "unlock", loc |-> "m", a |-> 0, b |-> 0]
            /\ pc' = [pc EXCEPT ![self] = "W5"]
            /\ UNCHANGED << g, c, cell, nextObj, disposed, stack, ri, v, wi, 
                            old, fl, it, tmp, gl, p >>

W5(self) == /\ pc[self] = "W5"
            /\ disposed' = (disposed \cup {old[self]})
            /\ acc' = [t |-> self, k |-> "dispose", loc |-> "", a |-> old[self], b |-> 0]
            /\ pc' = [pc EXCEPT ![self] = "W0"]
            /\ UNCHANGED << g, c, lockOwner, cell, nextObj, stack, ri, v, wi, 
                            old, fl, it, tmp, gl, p >>

W(self) == W0(self) \/ W1(self) \/ W2(self) \/ W3(self) \/ W4(self)
              \/ W5(self)

R0(self) == /\ pc[self] = "R0"
            /\ IF it[self] < RIter
                  THEN /\ it' = [it EXCEPT ![self] = it[self] + 1]
                       /\ pc' = [pc EXCEPT ![self] = "R1"]
                  ELSE /\ pc' = [pc EXCEPT ![self] = "Done"]
                       /\ it' = it
            /\ UNCHANGED << g, c, lockOwner, cell, nextObj, disposed, acc, 
                            stack, ri, v, wi, old, fl, tmp, gl, p >>

R1(self) == /\ pc[self] = "R1"
            /\ tmp' = [tmp EXCEPT ![self] = c[self]]
            /\ acc' = [t |-> self, k |-> "load", loc |-> "c", a |-> self, b |-> (CtlVal(c[self]))]
            /\ pc' = [pc EXCEPT ![self] = "R2"]
            /\ UNCHANGED << g, c, lockOwner, cell, nextObj, disposed, stack, 
                            ri, v, wi, old, fl, it, gl, p >>

R2(self) == /\ pc[self] = "R2"
            /\ gl' = [gl EXCEPT ![self] = g]
            /\ acc' = [t |-> self, k |-> "load", loc |-> "g", a |-> (CtlVal(g)), b |-> 0]
            /\ pc' = [pc EXCEPT ![self] = "R3"]
            /\ UNCHANGED << g, c, lockOwner, cell, nextObj, disposed, stack, 
                            ri, v, wi, old, fl, it, tmp, p >>

R3(self) == /\ pc[self] = "R3"
            /\ c' = [c EXCEPT ![self] = gl[self]]
            /\ acc' = [t |-> self, k |-> "store", loc |-> "c", a |-> self, b |-> (CtlVal(gl[self]))]
            /\ pc' = [pc EXCEPT ![self] = "R4"]
            /\ UNCHANGED << g, lockOwner, cell, nextObj, disposed, stack, ri, 
                            v, wi, old, fl, it, tmp, gl, p >>

R4(self) == /\ pc[self] = "R4"
            /\ p' = [p EXCEPT ![self] = cell]
            /\ acc' = [t |-> self, k |-> "load", loc |-> "cell", a |-> cell, b |-> 0]
            /\ pc' = [pc EXCEPT ![self] = "R5"]
            /\ UNCHANGED << g, c, lockOwner, cell, nextObj, disposed, stack, 
                            ri, v, wi, old, fl, it, tmp, gl >>

R5(self) == /\ pc[self] = "R5"
            /\ Assert(p[self] \notin disposed, 
                      "Failure of assertion at line 63, column 7.")
            /\ acc' = [t |-> self, k |-> "deref", loc |-> "", a |-> p[self], b |-> 0]
            /\ pc' = [pc EXCEPT ![self] = "R6"]
            /\ UNCHANGED << g, c, lockOwner, cell, nextObj, disposed, stack, 
                            ri, v, wi, old, fl, it, tmp, gl, p >>

R6(self) == /\ pc[self] = "R6"
            /\ tmp' = [tmp EXCEPT ![self] = c[self]]
            /\ acc' = [t |-> self, k |-> "load", loc |-> "c", a |-> self, b |-> (CtlVal(c[self]))]
            /\ pc' = [pc EXCEPT ![self] = "R7"]
            /\ UNCHANGED << g, c, lockOwner, cell, nextObj, disposed, stack, 
                            ri, v, wi, old, fl, it, gl, p >>

R7(self) == /\ pc[self] = "R7"
            /\ c' = [c EXCEPT ![self] = [tmp[self] EXCEPT !.n = tmp[self].n - 1]]
            /\ acc' = [t |-> self, k |-> "store", loc |-> "c", a |-> self, b |-> (CtlVal([tmp[self] EXCEPT !.n = tmp[self].n - 1]))]
            /\ pc' = [pc EXCEPT ![self] = "R0"]
            /\ UNCHANGED << g, lockOwner, cell, nextObj, disposed, stack, ri, 
                            v, wi, old, fl, it, tmp, gl, p >>

Rd(self) == R0(self) \/ R1(self) \/ R2(self) \/ R3(self) \/ R4(self)
               \/ R5(self) \/ R6(self) \/ R7(self)

(* Allow infinite stuttering to prevent deadlock on termination. *)
Terminating == /\ \A self \in ProcSet: pc[self] = "Done"
               /\ UNCHANGED vars

Next == (\E self \in ProcSet: flip_and_wait(self))
           \/ (\E self \in Writers: W(self))
           \/ (\E self \in Readers: Rd(self))
           \/ Terminating

Spec == Init /\ [][Next]_vars

Termination == <>(\A self \in ProcSet: pc[self] = "Done")

\* END TRANSLATION 
====
