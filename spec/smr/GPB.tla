---- MODULE GPB ----
\* Tier B: cds::urcu::general_buffered (cds/urcu/details/gpb.h) -- grace-period detection of gp_singleton plus the
\* epoch-stamped retired-pointer buffer.  One label per shared access that matters for the interleaving
\* (the global control word, the per-reader control word, the epoch counter, the buffer, the lock).
\* Switches give the refuted variants:
\*   EpochLate    -- m_nCurEpoch.fetch_add moved after the two flips (seeded change C04)
\*   OneFlip      -- a single flip_and_wait per synchronize
\*   NoEpochCheck -- clear_buffer frees everything it pops
\*   FreeRejected -- push_buffer frees a rejected pointer *before* synchronize()
EXTENDS Naturals, Sequences, FiniteSets, TLC
CONSTANTS Readers, Writers, RIter, WIter, Order, Threshold, QCap, EpochLate, OneFlip, NoEpochCheck, FreeRejected, MaxEpoch
NULL == 0
(* --algorithm GPB {
variables
  g = [ph |-> 0, n |-> 1],
  c = [t \in Readers |-> [ph |-> 0, n |-> 0]],
  lockOwner = NULL,
  cell = 1, nextObj = 2,
  disposed = {}, dfree = FALSE,
  epoch = 0, buf = <<>>;

macro Dispose(x) { dfree := dfree \/ (x \in disposed); disposed := disposed \cup {x}; }

procedure flip_and_wait()
  variables ri = 1;
{
F1: g := [g EXCEPT !.ph = 1 - g.ph];
F3: while (ri <= Len(Order)) {
      \* check_grace_period( pRec ): spin (back-off) while the reader is inside a section entered in the other phase
      await ~(c[Order[ri]].n # 0 /\ c[Order[ri]].ph # g.ph);
      ri := ri + 1;
    };
    return;
}

procedure clear_buffer(ce)
  variables citem = NULL;
{
C1: while (Len(buf) > 0) {
      citem := Head(buf); buf := Tail(buf);                 \* m_Buffer.pop( p )
C2:   if (NoEpochCheck \/ citem.e <= ce) { Dispose(citem.p); }
      else { call push_buffer(citem.p, citem.e); goto C3; };
    };
C3: return;
}

procedure synchronize()
  variables ne = 0;
{
S1: await lockOwner = NULL; lockOwner := self;
S2: if (~EpochLate) { ne := epoch; epoch := epoch + 1; };   \* nEpoch = m_nCurEpoch.fetch_add( 1 )
S3: call flip_and_wait();
S4: if (~OneFlip) { call flip_and_wait(); };
S5: if (EpochLate) { ne := epoch; epoch := epoch + 1; };
S6: lockOwner := NULL;
S7: call clear_buffer(ne);
S8: return;
}

procedure push_buffer(pp, pe)
  variables pushed = FALSE;
{
PB1: if (Len(buf) < QCap) { buf := Append(buf, [p |-> pp, e |-> pe]); pushed := TRUE; }   \* m_Buffer.push( ep )
     else { pushed := FALSE; };
PB2: if (~pushed \/ Len(buf) >= Threshold) {                                              \* m_Buffer.size() >= capacity()
       if (~pushed /\ FreeRejected) { Dispose(pp); };
       call synchronize();
PB3:   if (~pushed /\ ~FreeRejected) { Dispose(pp); };                                    \* ep.free() after the grace period
     };
PB4: return;
}

process (W \in Writers)
  variables wi = 0, old = NULL, ep = 0;
{
W0: while (wi < WIter) {
      wi := wi + 1;
W1:   old := cell; cell := nextObj; nextObj := nextObj + 1;   \* unlink: atomic exchange of the shared cell
W2:   ep := epoch;                                           \* retire_ptr: m_nCurEpoch.load( relaxed )
W3:   call push_buffer(old, ep);
    };
}

process (Rd \in Readers)
  variables it = 0, gl = [ph |-> 0, n |-> 0], p = NULL;
{
R0: while (it < RIter) {
      it := it + 1;
R2:   gl := g;                                   \* access_lock: load global control word ...
R3:   c[self] := gl;                             \* ... and publish it (nest count 1)
R4:   p := cell;
R5:   assert p \notin disposed;                  \* dereference inside the read-side critical section
R7:   c[self] := [c[self] EXCEPT !.n = 0];       \* access_unlock
    };
}
} *)
\* BEGIN TRANSLATION
CONSTANT defaultInitValue
VARIABLES pc, g, c, lockOwner, cell, nextObj, disposed, dfree, epoch, buf, 
          stack, ri, ce, citem, ne, pp, pe, pushed, wi, old, ep, it, gl, p

vars == << pc, g, c, lockOwner, cell, nextObj, disposed, dfree, epoch, buf, 
           stack, ri, ce, citem, ne, pp, pe, pushed, wi, old, ep, it, gl, p
        >>

ProcSet == (Writers) \cup (Readers)

Init == (* Global variables *)
        /\ g = [ph |-> 0, n |-> 1]
        /\ c = [t \in Readers |-> [ph |-> 0, n |-> 0]]
        /\ lockOwner = NULL
        /\ cell = 1
        /\ nextObj = 2
        /\ disposed = {}
        /\ dfree = FALSE
        /\ epoch = 0
        /\ buf = <<>>
        (* Procedure flip_and_wait *)
        /\ ri = [ self \in ProcSet |-> 1]
        (* Procedure clear_buffer *)
        /\ ce = [ self \in ProcSet |-> defaultInitValue]
        /\ citem = [ self \in ProcSet |-> NULL]
        (* Procedure synchronize *)
        /\ ne = [ self \in ProcSet |-> 0]
        (* Procedure push_buffer *)
        /\ pp = [ self \in ProcSet |-> defaultInitValue]
        /\ pe = [ self \in ProcSet |-> defaultInitValue]
        /\ pushed = [ self \in ProcSet |-> FALSE]
        (* Process W *)
        /\ wi = [self \in Writers |-> 0]
        /\ old = [self \in Writers |-> NULL]
        /\ ep = [self \in Writers |-> 0]
        (* Process Rd *)
        /\ it = [self \in Readers |-> 0]
        /\ gl = [self \in Readers |-> [ph |-> 0, n |-> 0]]
        /\ p = [self \in Readers |-> NULL]
        /\ stack = [self \in ProcSet |-> << >>]
        /\ pc = [self \in ProcSet |-> CASE self \in Writers -> "W0"
                                        [] self \in Readers -> "R0"]

F1(self) == /\ pc[self] = "F1"
            /\ g' = [g EXCEPT !.ph = 1 - g.ph]
            /\ pc' = [pc EXCEPT ![self] = "F3"]
            /\ UNCHANGED << c, lockOwner, cell, nextObj, disposed, dfree, 
                            epoch, buf, stack, ri, ce, citem, ne, pp, pe, 
                            pushed, wi, old, ep, it, gl, p >>

F3(self) == /\ pc[self] = "F3"
            /\ IF ri[self] <= Len(Order)
                  THEN /\ ~(c[Order[ri[self]]].n # 0 /\ c[Order[ri[self]]].ph # g.ph)
                       /\ ri' = [ri EXCEPT ![self] = ri[self] + 1]
                       /\ pc' = [pc EXCEPT ![self] = "F3"]
                       /\ stack' = stack
                  ELSE /\ pc' = [pc EXCEPT ![self] = Head(stack[self]).pc]
                       /\ ri' = [ri EXCEPT ![self] = Head(stack[self]).ri]
                       /\ stack' = [stack EXCEPT ![self] = Tail(stack[self])]
            /\ UNCHANGED << g, c, lockOwner, cell, nextObj, disposed, dfree, 
                            epoch, buf, ce, citem, ne, pp, pe, pushed, wi, old, 
                            ep, it, gl, p >>

flip_and_wait(self) == F1(self) \/ F3(self)

C1(self) == /\ pc[self] = "C1"
            /\ IF Len(buf) > 0
                  THEN /\ citem' = [citem EXCEPT ![self] = Head(buf)]
                       /\ buf' = Tail(buf)
                       /\ pc' = [pc EXCEPT ![self] = "C2"]
                  ELSE /\ pc' = [pc EXCEPT ![self] = "C3"]
                       /\ UNCHANGED << buf, citem >>
            /\ UNCHANGED << g, c, lockOwner, cell, nextObj, disposed, dfree, 
                            epoch, stack, ri, ce, ne, pp, pe, pushed, wi, old, 
                            ep, it, gl, p >>

C2(self) == /\ pc[self] = "C2"
            /\ IF NoEpochCheck \/ citem[self].e <= ce[self]
                  THEN /\ dfree' = (dfree \/ ((citem[self].p) \in disposed))
                       /\ disposed' = (disposed \cup {(citem[self].p)})
                       /\ pc' = [pc EXCEPT ![self] = "C1"]
                       /\ UNCHANGED << stack, pp, pe, pushed >>
                  ELSE /\ /\ pe' = [pe EXCEPT ![self] = citem[self].e]
                          /\ pp' = [pp EXCEPT ![self] = citem[self].p]
                          /\ stack' = [stack EXCEPT ![self] = << [ procedure |->  "push_buffer",
                                                                   pc        |->  "C3",
                                                                   pushed    |->  pushed[self],
                                                                   pp        |->  pp[self],
                                                                   pe        |->  pe[self] ] >>
                                                               \o stack[self]]
                       /\ pushed' = [pushed EXCEPT ![self] = FALSE]
                       /\ pc' = [pc EXCEPT ![self] = "PB1"]
                       /\ UNCHANGED << disposed, dfree >>
            /\ UNCHANGED << g, c, lockOwner, cell, nextObj, epoch, buf, ri, ce, 
                            citem, ne, wi, old, ep, it, gl, p >>

C3(self) == /\ pc[self] = "C3"
            /\ pc' = [pc EXCEPT ![self] = Head(stack[self]).pc]
            /\ citem' = [citem EXCEPT ![self] = Head(stack[self]).citem]
            /\ ce' = [ce EXCEPT ![self] = Head(stack[self]).ce]
            /\ stack' = [stack EXCEPT ![self] = Tail(stack[self])]
            /\ UNCHANGED << g, c, lockOwner, cell, nextObj, disposed, dfree, 
                            epoch, buf, ri, ne, pp, pe, pushed, wi, old, ep, 
                            it, gl, p >>

clear_buffer(self) == C1(self) \/ C2(self) \/ C3(self)

S1(self) == /\ pc[self] = "S1"
            /\ lockOwner = NULL
            /\ lockOwner' = self
            /\ pc' = [pc EXCEPT ![self] = "S2"]
            /\ UNCHANGED << g, c, cell, nextObj, disposed, dfree, epoch, buf, 
                            stack, ri, ce, citem, ne, pp, pe, pushed, wi, old, 
                            ep, it, gl, p >>

S2(self) == /\ pc[self] = "S2"
            /\ IF ~EpochLate
                  THEN /\ ne' = [ne EXCEPT ![self] = epoch]
                       /\ epoch' = epoch + 1
                  ELSE /\ TRUE
                       /\ UNCHANGED << epoch, ne >>
            /\ pc' = [pc EXCEPT ![self] = "S3"]
            /\ UNCHANGED << g, c, lockOwner, cell, nextObj, disposed, dfree, 
                            buf, stack, ri, ce, citem, pp, pe, pushed, wi, old, 
                            ep, it, gl, p >>

S3(self) == /\ pc[self] = "S3"
            /\ stack' = [stack EXCEPT ![self] = << [ procedure |->  "flip_and_wait",
                                                     pc        |->  "S4",
                                                     ri        |->  ri[self] ] >>
                                                 \o stack[self]]
            /\ ri' = [ri EXCEPT ![self] = 1]
            /\ pc' = [pc EXCEPT ![self] = "F1"]
            /\ UNCHANGED << g, c, lockOwner, cell, nextObj, disposed, dfree, 
                            epoch, buf, ce, citem, ne, pp, pe, pushed, wi, old, 
                            ep, it, gl, p >>

S4(self) == /\ pc[self] = "S4"
            /\ IF ~OneFlip
                  THEN /\ stack' = [stack EXCEPT ![self] = << [ procedure |->  "flip_and_wait",
                                                                pc        |->  "S5",
                                                                ri        |->  ri[self] ] >>
                                                            \o stack[self]]
                       /\ ri' = [ri EXCEPT ![self] = 1]
                       /\ pc' = [pc EXCEPT ![self] = "F1"]
                  ELSE /\ pc' = [pc EXCEPT ![self] = "S5"]
                       /\ UNCHANGED << stack, ri >>
            /\ UNCHANGED << g, c, lockOwner, cell, nextObj, disposed, dfree, 
                            epoch, buf, ce, citem, ne, pp, pe, pushed, wi, old, 
                            ep, it, gl, p >>

S5(self) == /\ pc[self] = "S5"
            /\ IF EpochLate
                  THEN /\ ne' = [ne EXCEPT ![self] = epoch]
                       /\ epoch' = epoch + 1
                  ELSE /\ TRUE
                       /\ UNCHANGED << epoch, ne >>
            /\ pc' = [pc EXCEPT ![self] = "S6"]
            /\ UNCHANGED << g, c, lockOwner, cell, nextObj, disposed, dfree, 
                            buf, stack, ri, ce, citem, pp, pe, pushed, wi, old, 
                            ep, it, gl, p >>

S6(self) == /\ pc[self] = "S6"
            /\ lockOwner' = NULL
            /\ pc' = [pc EXCEPT ![self] = "S7"]
            /\ UNCHANGED << g, c, cell, nextObj, disposed, dfree, epoch, buf, 
                            stack, ri, ce, citem, ne, pp, pe, pushed, wi, old, 
                            ep, it, gl, p >>

S7(self) == /\ pc[self] = "S7"
            /\ /\ ce' = [ce EXCEPT ![self] = ne[self]]
               /\ stack' = [stack EXCEPT ![self] = << [ procedure |->  "clear_buffer",
                                                        pc        |->  "S8",
                                                        citem     |->  citem[self],
                                                        ce        |->  ce[self] ] >>
                                                    \o stack[self]]
            /\ citem' = [citem EXCEPT ![self] = NULL]
            /\ pc' = [pc EXCEPT ![self] = "C1"]
            /\ UNCHANGED << g, c, lockOwner, cell, nextObj, disposed, dfree, 
                            epoch, buf, ri, ne, pp, pe, pushed, wi, old, ep, 
                            it, gl, p >>

S8(self) == /\ pc[self] = "S8"
            /\ pc' = [pc EXCEPT ![self] = Head(stack[self]).pc]
            /\ ne' = [ne EXCEPT ![self] = Head(stack[self]).ne]
            /\ stack' = [stack EXCEPT ![self] = Tail(stack[self])]
            /\ UNCHANGED << g, c, lockOwner, cell, nextObj, disposed, dfree, 
                            epoch, buf, ri, ce, citem, pp, pe, pushed, wi, old, 
                            ep, it, gl, p >>

synchronize(self) == S1(self) \/ S2(self) \/ S3(self) \/ S4(self)
                        \/ S5(self) \/ S6(self) \/ S7(self) \/ S8(self)

PB1(self) == /\ pc[self] = "PB1"
             /\ IF Len(buf) < QCap
                   THEN /\ buf' = Append(buf, [p |-> pp[self], e |-> pe[self]])
                        /\ pushed' = [pushed EXCEPT ![self] = TRUE]
                   ELSE /\ pushed' = [pushed EXCEPT ![self] = FALSE]
                        /\ buf' = buf
             /\ pc' = [pc EXCEPT ![self] = "PB2"]
             /\ UNCHANGED << g, c, lockOwner, cell, nextObj, disposed, dfree, 
                             epoch, stack, ri, ce, citem, ne, pp, pe, wi, old, 
                             ep, it, gl, p >>

PB2(self) == /\ pc[self] = "PB2"
             /\ IF ~pushed[self] \/ Len(buf) >= Threshold
                   THEN /\ IF ~pushed[self] /\ FreeRejected
                              THEN /\ dfree' = (dfree \/ (pp[self] \in disposed))
                                   /\ disposed' = (disposed \cup {pp[self]})
                              ELSE /\ TRUE
                                   /\ UNCHANGED << disposed, dfree >>
                        /\ stack' = [stack EXCEPT ![self] = << [ procedure |->  "synchronize",
                                                                 pc        |->  "PB3",
                                                                 ne        |->  ne[self] ] >>
                                                             \o stack[self]]
                        /\ ne' = [ne EXCEPT ![self] = 0]
                        /\ pc' = [pc EXCEPT ![self] = "S1"]
                   ELSE /\ pc' = [pc EXCEPT ![self] = "PB4"]
                        /\ UNCHANGED << disposed, dfree, stack, ne >>
             /\ UNCHANGED << g, c, lockOwner, cell, nextObj, epoch, buf, ri, 
                             ce, citem, pp, pe, pushed, wi, old, ep, it, gl, p >>

PB3(self) == /\ pc[self] = "PB3"
             /\ IF ~pushed[self] /\ ~FreeRejected
                   THEN /\ dfree' = (dfree \/ (pp[self] \in disposed))
                        /\ disposed' = (disposed \cup {pp[self]})
                   ELSE /\ TRUE
                        /\ UNCHANGED << disposed, dfree >>
             /\ pc' = [pc EXCEPT ![self] = "PB4"]
             /\ UNCHANGED << g, c, lockOwner, cell, nextObj, epoch, buf, stack, 
                             ri, ce, citem, ne, pp, pe, pushed, wi, old, ep, 
                             it, gl, p >>

PB4(self) == /\ pc[self] = "PB4"
             /\ pc' = [pc EXCEPT ![self] = Head(stack[self]).pc]
             /\ pushed' = [pushed EXCEPT ![self] = Head(stack[self]).pushed]
             /\ pp' = [pp EXCEPT ![self] = Head(stack[self]).pp]
             /\ pe' = [pe EXCEPT ![self] = Head(stack[self]).pe]
             /\ stack' = [stack EXCEPT ![self] = Tail(stack[self])]
             /\ UNCHANGED << g, c, lockOwner, cell, nextObj, disposed, dfree, 
                             epoch, buf, ri, ce, citem, ne, wi, old, ep, it, 
                             gl, p >>

push_buffer(self) == PB1(self) \/ PB2(self) \/ PB3(self) \/ PB4(self)

W0(self) == /\ pc[self] = "W0"
            /\ IF wi[self] < WIter
                  THEN /\ wi' = [wi EXCEPT ![self] = wi[self] + 1]
                       /\ pc' = [pc EXCEPT ![self] = "W1"]
                  ELSE /\ pc' = [pc EXCEPT ![self] = "Done"]
                       /\ wi' = wi
            /\ UNCHANGED << g, c, lockOwner, cell, nextObj, disposed, dfree, 
                            epoch, buf, stack, ri, ce, citem, ne, pp, pe, 
                            pushed, old, ep, it, gl, p >>

W1(self) == /\ pc[self] = "W1"
            /\ old' = [old EXCEPT ![self] = cell]
            /\ cell' = nextObj
            /\ nextObj' = nextObj + 1
            /\ pc' = [pc EXCEPT ![self] = "W2"]
            /\ UNCHANGED << g, c, lockOwner, disposed, dfree, epoch, buf, 
                            stack, ri, ce, citem, ne, pp, pe, pushed, wi, ep, 
                            it, gl, p >>

W2(self) == /\ pc[self] = "W2"
            /\ ep' = [ep EXCEPT ![self] = epoch]
            /\ pc' = [pc EXCEPT ![self] = "W3"]
            /\ UNCHANGED << g, c, lockOwner, cell, nextObj, disposed, dfree, 
                            epoch, buf, stack, ri, ce, citem, ne, pp, pe, 
                            pushed, wi, old, it, gl, p >>

W3(self) == /\ pc[self] = "W3"
            /\ /\ pe' = [pe EXCEPT ![self] = ep[self]]
               /\ pp' = [pp EXCEPT ![self] = old[self]]
               /\ stack' = [stack EXCEPT ![self] = << [ procedure |->  "push_buffer",
                                                        pc        |->  "W0",
                                                        pushed    |->  pushed[self],
                                                        pp        |->  pp[self],
                                                        pe        |->  pe[self] ] >>
                                                    \o stack[self]]
            /\ pushed' = [pushed EXCEPT ![self] = FALSE]
            /\ pc' = [pc EXCEPT ![self] = "PB1"]
            /\ UNCHANGED << g, c, lockOwner, cell, nextObj, disposed, dfree, 
                            epoch, buf, ri, ce, citem, ne, wi, old, ep, it, gl, 
                            p >>

W(self) == W0(self) \/ W1(self) \/ W2(self) \/ W3(self)

R0(self) == /\ pc[self] = "R0"
            /\ IF it[self] < RIter
                  THEN /\ it' = [it EXCEPT ![self] = it[self] + 1]
                       /\ pc' = [pc EXCEPT ![self] = "R2"]
                  ELSE /\ pc' = [pc EXCEPT ![self] = "Done"]
                       /\ it' = it
            /\ UNCHANGED << g, c, lockOwner, cell, nextObj, disposed, dfree, 
                            epoch, buf, stack, ri, ce, citem, ne, pp, pe, 
                            pushed, wi, old, ep, gl, p >>

R2(self) == /\ pc[self] = "R2"
            /\ gl' = [gl EXCEPT ![self] = g]
            /\ pc' = [pc EXCEPT ![self] = "R3"]
            /\ UNCHANGED << g, c, lockOwner, cell, nextObj, disposed, dfree, 
                            epoch, buf, stack, ri, ce, citem, ne, pp, pe, 
                            pushed, wi, old, ep, it, p >>

R3(self) == /\ pc[self] = "R3"
            /\ c' = [c EXCEPT ![self] = gl[self]]
            /\ pc' = [pc EXCEPT ![self] = "R4"]
            /\ UNCHANGED << g, lockOwner, cell, nextObj, disposed, dfree, 
                            epoch, buf, stack, ri, ce, citem, ne, pp, pe, 
                            pushed, wi, old, ep, it, gl, p >>

R4(self) == /\ pc[self] = "R4"
            /\ p' = [p EXCEPT ![self] = cell]
            /\ pc' = [pc EXCEPT ![self] = "R5"]
            /\ UNCHANGED << g, c, lockOwner, cell, nextObj, disposed, dfree, 
                            epoch, buf, stack, ri, ce, citem, ne, pp, pe, 
                            pushed, wi, old, ep, it, gl >>

R5(self) == /\ pc[self] = "R5"
            /\ Assert(p[self] \notin disposed, 
                      "Failure of assertion at line 92, column 7.")
            /\ pc' = [pc EXCEPT ![self] = "R7"]
            /\ UNCHANGED << g, c, lockOwner, cell, nextObj, disposed, dfree, 
                            epoch, buf, stack, ri, ce, citem, ne, pp, pe, 
                            pushed, wi, old, ep, it, gl, p >>

R7(self) == /\ pc[self] = "R7"
            /\ c' = [c EXCEPT ![self] = [c[self] EXCEPT !.n = 0]]
            /\ pc' = [pc EXCEPT ![self] = "R0"]
            /\ UNCHANGED << g, lockOwner, cell, nextObj, disposed, dfree, 
                            epoch, buf, stack, ri, ce, citem, ne, pp, pe, 
                            pushed, wi, old, ep, it, gl, p >>

Rd(self) == R0(self) \/ R2(self) \/ R3(self) \/ R4(self) \/ R5(self)
               \/ R7(self)

(* Allow infinite stuttering to prevent deadlock on termination. *)
Terminating == /\ \A self \in ProcSet: pc[self] = "Done"
               /\ UNCHANGED vars

Next == (\E self \in ProcSet:  \/ flip_and_wait(self) \/ clear_buffer(self)
                               \/ synchronize(self) \/ push_buffer(self))
           \/ (\E self \in Writers: W(self))
           \/ (\E self \in Readers: Rd(self))
           \/ Terminating

Spec == Init /\ [][Next]_vars

Termination == <>(\A self \in ProcSet: pc[self] = "Done")

\* END TRANSLATION

NoDoubleFree == ~dfree
Objects == 1 .. (nextObj - 1)
InBuf == { buf[j].p : j \in 1 .. Len(buf) }
\* at quiescence every unlinked object is either reclaimed or still buffered, never both, never lost
Conservation == (\A t \in ProcSet : pc[t] = "Done") =>
                   /\ disposed \cup InBuf = Objects \ {cell}
                   /\ disposed \cap InBuf = {}
BufBound == Len(buf) <= QCap
EpochBound == epoch <= MaxEpoch
====
