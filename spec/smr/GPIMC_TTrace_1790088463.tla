---- MODULE GPIMC_TTrace_1790088463 ----
EXTENDS Sequences, TLCExt, Toolbox, Naturals, TLC, GPIMC

_expression ==
    LET GPIMC_TEExpression == INSTANCE GPIMC_TEExpression
    IN GPIMC_TEExpression!expression
----

_trace ==
    LET GPIMC_TETrace == INSTANCE GPIMC_TETrace
    IN GPIMC_TETrace!trace
----

_inv ==
    ~(
        TLCGet("level") = Len(_TETrace)
        /\
        acc = ([t |-> 2, k |-> "dispose", loc |-> "", a |-> 2, b |-> 0])
        /\
        stack = (<<<<>>, <<>>>>)
        /\
        c = (<<[ph |-> 0, n |-> 1], [ph |-> 0, n |-> 0]>>)
        /\
        gl = (<<[ph |-> 0, n |-> 1]>>)
        /\
        old = ((2 :> 2))
        /\
        fl = ((2 :> 1))
        /\
        g = ([ph |-> 0, n |-> 1])
        /\
        it = (<<1>>)
        /\
        cell = (3)
        /\
        p = (<<2>>)
        /\
        wi = ((2 :> 2))
        /\
        pc = (<<"R5", "W0">>)
        /\
        nextObj = (4)
        /\
        tmp = (<<[ph |-> 0, n |-> 0]>>)
        /\
        v = (<<[ph |-> 0, n |-> 0], [ph |-> 0, n |-> 0]>>)
        /\
        ri = (<<1, 1>>)
        /\
        lockOwner = (0)
        /\
        disposed = ({1, 2})
    )
----

_init ==
    /\ lockOwner = _TETrace[1].lockOwner
    /\ tmp = _TETrace[1].tmp
    /\ disposed = _TETrace[1].disposed
    /\ c = _TETrace[1].c
    /\ g = _TETrace[1].g
    /\ p = _TETrace[1].p
    /\ v = _TETrace[1].v
    /\ pc = _TETrace[1].pc
    /\ ri = _TETrace[1].ri
    /\ old = _TETrace[1].old
    /\ fl = _TETrace[1].fl
    /\ nextObj = _TETrace[1].nextObj
    /\ gl = _TETrace[1].gl
    /\ acc = _TETrace[1].acc
    /\ it = _TETrace[1].it
    /\ wi = _TETrace[1].wi
    /\ stack = _TETrace[1].stack
    /\ cell = _TETrace[1].cell
----

_next ==
    /\ \E i,j \in DOMAIN _TETrace:
        /\ \/ /\ j = i + 1
              /\ i = TLCGet("level")
        /\ lockOwner  = _TETrace[i].lockOwner
        /\ lockOwner' = _TETrace[j].lockOwner
        /\ tmp  = _TETrace[i].tmp
        /\ tmp' = _TETrace[j].tmp
        /\ disposed  = _TETrace[i].disposed
        /\ disposed' = _TETrace[j].disposed
        /\ c  = _TETrace[i].c
        /\ c' = _TETrace[j].c
        /\ g  = _TETrace[i].g
        /\ g' = _TETrace[j].g
        /\ p  = _TETrace[i].p
        /\ p' = _TETrace[j].p
        /\ v  = _TETrace[i].v
        /\ v' = _TETrace[j].v
        /\ pc  = _TETrace[i].pc
        /\ pc' = _TETrace[j].pc
        /\ ri  = _TETrace[i].ri
        /\ ri' = _TETrace[j].ri
        /\ old  = _TETrace[i].old
        /\ old' = _TETrace[j].old
        /\ fl  = _TETrace[i].fl
        /\ fl' = _TETrace[j].fl
        /\ nextObj  = _TETrace[i].nextObj
        /\ nextObj' = _TETrace[j].nextObj
        /\ gl  = _TETrace[i].gl
        /\ gl' = _TETrace[j].gl
        /\ acc  = _TETrace[i].acc
        /\ acc' = _TETrace[j].acc
        /\ it  = _TETrace[i].it
        /\ it' = _TETrace[j].it
        /\ wi  = _TETrace[i].wi
        /\ wi' = _TETrace[j].wi
        /\ stack  = _TETrace[i].stack
        /\ stack' = _TETrace[j].stack
        /\ cell  = _TETrace[i].cell
        /\ cell' = _TETrace[j].cell

\* Uncomment the ASSUME below to write the states of the error trace
\* to the given file in Json format. Note that you can pass any tuple
\* to `JsonSerialize`. For example, a sub-sequence of _TETrace.
    \* ASSUME
    \*     LET J == INSTANCE Json
    \*         IN J!JsonSerialize("GPIMC_TTrace_1790088463.json", _TETrace)

=============================================================================

 Note that you can extract this module `GPIMC_TEExpression`
  to a dedicated file to reuse `expression` (the module in the 
  dedicated `GPIMC_TEExpression.tla` file takes precedence 
  over the module `GPIMC_TEExpression` below).

---- MODULE GPIMC_TEExpression ----
EXTENDS Sequences, TLCExt, Toolbox, Naturals, TLC, GPIMC

expression == 
    [
        \* To hide variables of the `GPIMC` spec from the error trace,
        \* remove the variables below.  The trace will be written in the order
        \* of the fields of this record.
        lockOwner |-> lockOwner
        ,tmp |-> tmp
        ,disposed |-> disposed
        ,c |-> c
        ,g |-> g
        ,p |-> p
        ,v |-> v
        ,pc |-> pc
        ,ri |-> ri
        ,old |-> old
        ,fl |-> fl
        ,nextObj |-> nextObj
        ,gl |-> gl
        ,acc |-> acc
        ,it |-> it
        ,wi |-> wi
        ,stack |-> stack
        ,cell |-> cell
        
        \* Put additional constant-, state-, and action-level expressions here:
        \* ,_stateNumber |-> _TEPosition
        \* ,_lockOwnerUnchanged |-> lockOwner = lockOwner'
        
        \* Format the `lockOwner` variable as Json value.
        \* ,_lockOwnerJson |->
        \*     LET J == INSTANCE Json
        \*     IN J!ToJson(lockOwner)
        
        \* Lastly, you may build expressions over arbitrary sets of states by
        \* leveraging the _TETrace operator.  For example, this is how to
        \* count the number of times a spec variable changed up to the current
        \* state in the trace.
        \* ,_lockOwnerModCount |->
        \*     LET F[s \in DOMAIN _TETrace] ==
        \*         IF s = 1 THEN 0
        \*         ELSE IF _TETrace[s].lockOwner # _TETrace[s-1].lockOwner
        \*             THEN 1 + F[s-1] ELSE F[s-1]
        \*     IN F[_TEPosition - 1]
    ]

=============================================================================



Parsing and semantic processing can take forever if the trace below is long.
 In this case, it is advised to uncomment the module below to deserialize the
 trace from a generated binary file.

\*
\*---- MODULE GPIMC_TETrace ----
\*EXTENDS IOUtils, TLC, GPIMC
\*
\*trace == IODeserialize("GPIMC_TTrace_1790088463.bin", TRUE)
\*
\*=============================================================================
\*

---- MODULE GPIMC_TETrace ----
EXTENDS TLC, GPIMC

trace == 
    <<
    ([acc |-> [t |-> 0, k |-> "none", loc |-> "", a |-> 0, b |-> 0],stack |-> <<<<>>, <<>>>>,c |-> <<[ph |-> 0, n |-> 0], [ph |-> 0, n |-> 0]>>,gl |-> <<[ph |-> 0, n |-> 0]>>,old |-> (2 :> 0),fl |-> (2 :> 0),g |-> [ph |-> 0, n |-> 1],it |-> <<0>>,cell |-> 1,p |-> <<0>>,wi |-> (2 :> 0),pc |-> <<"R0", "W0">>,nextObj |-> 2,tmp |-> <<[ph |-> 0, n |-> 0]>>,v |-> <<[ph |-> 0, n |-> 0], [ph |-> 0, n |-> 0]>>,ri |-> <<1, 1>>,lockOwner |-> 0,disposed |-> {}]),
    ([acc |-> [t |-> 0, k |-> "none", loc |-> "", a |-> 0, b |-> 0],stack |-> <<<<>>, <<>>>>,c |-> <<[ph |-> 0, n |-> 0], [ph |-> 0, n |-> 0]>>,gl |-> <<[ph |-> 0, n |-> 0]>>,old |-> (2 :> 0),fl |-> (2 :> 0),g |-> [ph |-> 0, n |-> 1],it |-> <<1>>,cell |-> 1,p |-> <<0>>,wi |-> (2 :> 0),pc |-> <<"R1", "W0">>,nextObj |-> 2,tmp |-> <<[ph |-> 0, n |-> 0]>>,v |-> <<[ph |-> 0, n |-> 0], [ph |-> 0, n |-> 0]>>,ri |-> <<1, 1>>,lockOwner |-> 0,disposed |-> {}]),
    ([acc |-> [t |-> 0, k |-> "none", loc |-> "", a |-> 0, b |-> 0],stack |-> <<<<>>, <<>>>>,c |-> <<[ph |-> 0, n |-> 0], [ph |-> 0, n |-> 0]>>,gl |-> <<[ph |-> 0, n |-> 0]>>,old |-> (2 :> 0),fl |-> (2 :> 0),g |-> [ph |-> 0, n |-> 1],it |-> <<1>>,cell |-> 1,p |-> <<0>>,wi |-> (2 :> 1),pc |-> <<"R1", "W1">>,nextObj |-> 2,tmp |-> <<[ph |-> 0, n |-> 0]>>,v |-> <<[ph |-> 0, n |-> 0], [ph |-> 0, n |-> 0]>>,ri |-> <<1, 1>>,lockOwner |-> 0,disposed |-> {}]),
    ([acc |-> [t |-> 2, k |-> "xchg", loc |-> "cell", a |-> 1, b |-> 2],stack |-> <<<<>>, <<>>>>,c |-> <<[ph |-> 0, n |-> 0], [ph |-> 0, n |-> 0]>>,gl |-> <<[ph |-> 0, n |-> 0]>>,old |-> (2 :> 1),fl |-> (2 :> 0),g |-> [ph |-> 0, n |-> 1],it |-> <<1>>,cell |-> 2,p |-> <<0>>,wi |-> (2 :> 1),pc |-> <<"R1", "W2">>,nextObj |-> 3,tmp |-> <<[ph |-> 0, n |-> 0]>>,v |-> <<[ph |-> 0, n |-> 0], [ph |-> 0, n |-> 0]>>,ri |-> <<1, 1>>,lockOwner |-> 0,disposed |-> {}]),
    ([acc |-> [t |-> 2, k |-> "lock", loc |-> "m", a |-> 0, b |-> 0],stack |-> <<<<>>, <<>>>>,c |-> <<[ph |-> 0, n |-> 0], [ph |-> 0, n |-> 0]>>,gl |-> <<[ph |-> 0, n |-> 0]>>,old |-> (2 :> 1),fl |-> (2 :> 0),g |-> [ph |-> 0, n |-> 1],it |-> <<1>>,cell |-> 2,p |-> <<0>>,wi |-> (2 :> 1),pc |-> <<"R1", "W3">>,nextObj |-> 3,tmp |-> <<[ph |-> 0, n |-> 0]>>,v |-> <<[ph |-> 0, n |-> 0], [ph |-> 0, n |-> 0]>>,ri |-> <<1, 1>>,lockOwner |-> 2,disposed |-> {}]),
    ([acc |-> [t |-> 2, k |-> "lock", loc |-> "m", a |-> 0, b |-> 0],stack |-> <<<<>>, <<[pc |-> "W3", ri |-> 1, v |-> [ph |-> 0, n |-> 0], procedure |-> "flip_and_wait"]>>>>,c |-> <<[ph |-> 0, n |-> 0], [ph |-> 0, n |-> 0]>>,gl |-> <<[ph |-> 0, n |-> 0]>>,old |-> (2 :> 1),fl |-> (2 :> 1),g |-> [ph |-> 0, n |-> 1],it |-> <<1>>,cell |-> 2,p |-> <<0>>,wi |-> (2 :> 1),pc |-> <<"R1", "F1">>,nextObj |-> 3,tmp |-> <<[ph |-> 0, n |-> 0]>>,v |-> <<[ph |-> 0, n |-> 0], [ph |-> 0, n |-> 0]>>,ri |-> <<1, 1>>,lockOwner |-> 2,disposed |-> {}]),
    ([acc |-> [t |-> 1, k |-> "load", loc |-> "c", a |-> 1, b |-> 0],stack |-> <<<<>>, <<[pc |-> "W3", ri |-> 1, v |-> [ph |-> 0, n |-> 0], procedure |-> "flip_and_wait"]>>>>,c |-> <<[ph |-> 0, n |-> 0], [ph |-> 0, n |-> 0]>>,gl |-> <<[ph |-> 0, n |-> 0]>>,old |-> (2 :> 1),fl |-> (2 :> 1),g |-> [ph |-> 0, n |-> 1],it |-> <<1>>,cell |-> 2,p |-> <<0>>,wi |-> (2 :> 1),pc |-> <<"R2", "F1">>,nextObj |-> 3,tmp |-> <<[ph |-> 0, n |-> 0]>>,v |-> <<[ph |-> 0, n |-> 0], [ph |-> 0, n |-> 0]>>,ri |-> <<1, 1>>,lockOwner |-> 2,disposed |-> {}]),
    ([acc |-> [t |-> 1, k |-> "load", loc |-> "g", a |-> 1, b |-> 0],stack |-> <<<<>>, <<[pc |-> "W3", ri |-> 1, v |-> [ph |-> 0, n |-> 0], procedure |-> "flip_and_wait"]>>>>,c |-> <<[ph |-> 0, n |-> 0], [ph |-> 0, n |-> 0]>>,gl |-> <<[ph |-> 0, n |-> 1]>>,old |-> (2 :> 1),fl |-> (2 :> 1),g |-> [ph |-> 0, n |-> 1],it |-> <<1>>,cell |-> 2,p |-> <<0>>,wi |-> (2 :> 1),pc |-> <<"R3", "F1">>,nextObj |-> 3,tmp |-> <<[ph |-> 0, n |-> 0]>>,v |-> <<[ph |-> 0, n |-> 0], [ph |-> 0, n |-> 0]>>,ri |-> <<1, 1>>,lockOwner |-> 2,disposed |-> {}]),
    ([acc |-> [t |-> 2, k |-> "fxor", loc |-> "g", a |-> 1, b |-> 0],stack |-> <<<<>>, <<[pc |-> "W3", ri |-> 1, v |-> [ph |-> 0, n |-> 0], procedure |-> "flip_and_wait"]>>>>,c |-> <<[ph |-> 0, n |-> 0], [ph |-> 0, n |-> 0]>>,gl |-> <<[ph |-> 0, n |-> 1]>>,old |-> (2 :> 1),fl |-> (2 :> 1),g |-> [ph |-> 1, n |-> 1],it |-> <<1>>,cell |-> 2,p |-> <<0>>,wi |-> (2 :> 1),pc |-> <<"R3", "F2">>,nextObj |-> 3,tmp |-> <<[ph |-> 0, n |-> 0]>>,v |-> <<[ph |-> 0, n |-> 0], [ph |-> 0, n |-> 0]>>,ri |-> <<1, 1>>,lockOwner |-> 2,disposed |-> {}]),
    ([acc |-> [t |-> 2, k |-> "load", loc |-> "tlist", a |-> 0, b |-> 0],stack |-> <<<<>>, <<[pc |-> "W3", ri |-> 1, v |-> [ph |-> 0, n |-> 0], procedure |-> "flip_and_wait"]>>>>,c |-> <<[ph |-> 0, n |-> 0], [ph |-> 0, n |-> 0]>>,gl |-> <<[ph |-> 0, n |-> 1]>>,old |-> (2 :> 1),fl |-> (2 :> 1),g |-> [ph |-> 1, n |-> 1],it |-> <<1>>,cell |-> 2,p |-> <<0>>,wi |-> (2 :> 1),pc |-> <<"R3", "F3">>,nextObj |-> 3,tmp |-> <<[ph |-> 0, n |-> 0]>>,v |-> <<[ph |-> 0, n |-> 0], [ph |-> 0, n |-> 0]>>,ri |-> <<1, 1>>,lockOwner |-> 2,disposed |-> {}]),
    ([acc |-> [t |-> 2, k |-> "load", loc |-> "tid", a |-> 2, b |-> 0],stack |-> <<<<>>, <<[pc |-> "W3", ri |-> 1, v |-> [ph |-> 0, n |-> 0], procedure |-> "flip_and_wait"]>>>>,c |-> <<[ph |-> 0, n |-> 0], [ph |-> 0, n |-> 0]>>,gl |-> <<[ph |-> 0, n |-> 1]>>,old |-> (2 :> 1),fl |-> (2 :> 1),g |-> [ph |-> 1, n |-> 1],it |-> <<1>>,cell |-> 2,p |-> <<0>>,wi |-> (2 :> 1),pc |-> <<"R3", "F4">>,nextObj |-> 3,tmp |-> <<[ph |-> 0, n |-> 0]>>,v |-> <<[ph |-> 0, n |-> 0], [ph |-> 0, n |-> 0]>>,ri |-> <<1, 1>>,lockOwner |-> 2,disposed |-> {}]),
    ([acc |-> [t |-> 2, k |-> "load", loc |-> "c", a |-> 2, b |-> 0],stack |-> <<<<>>, <<[pc |-> "W3", ri |-> 1, v |-> [ph |-> 0, n |-> 0], procedure |-> "flip_and_wait"]>>>>,c |-> <<[ph |-> 0, n |-> 0], [ph |-> 0, n |-> 0]>>,gl |-> <<[ph |-> 0, n |-> 1]>>,old |-> (2 :> 1),fl |-> (2 :> 1),g |-> [ph |-> 1, n |-> 1],it |-> <<1>>,cell |-> 2,p |-> <<0>>,wi |-> (2 :> 1),pc |-> <<"R3", "F7">>,nextObj |-> 3,tmp |-> <<[ph |-> 0, n |-> 0]>>,v |-> <<[ph |-> 0, n |-> 0], [ph |-> 0, n |-> 0]>>,ri |-> <<1, 1>>,lockOwner |-> 2,disposed |-> {}]),
    ([acc |-> [t |-> 2, k |-> "load", loc |-> "c", a |-> 2, b |-> 0],stack |-> <<<<>>, <<[pc |-> "W3", ri |-> 1, v |-> [ph |-> 0, n |-> 0], procedure |-> "flip_and_wait"]>>>>,c |-> <<[ph |-> 0, n |-> 0], [ph |-> 0, n |-> 0]>>,gl |-> <<[ph |-> 0, n |-> 1]>>,old |-> (2 :> 1),fl |-> (2 :> 1),g |-> [ph |-> 1, n |-> 1],it |-> <<1>>,cell |-> 2,p |-> <<0>>,wi |-> (2 :> 1),pc |-> <<"R3", "F3">>,nextObj |-> 3,tmp |-> <<[ph |-> 0, n |-> 0]>>,v |-> <<[ph |-> 0, n |-> 0], [ph |-> 0, n |-> 0]>>,ri |-> <<1, 2>>,lockOwner |-> 2,disposed |-> {}]),
    ([acc |-> [t |-> 2, k |-> "load", loc |-> "tid", a |-> 1, b |-> 0],stack |-> <<<<>>, <<[pc |-> "W3", ri |-> 1, v |-> [ph |-> 0, n |-> 0], procedure |-> "flip_and_wait"]>>>>,c |-> <<[ph |-> 0, n |-> 0], [ph |-> 0, n |-> 0]>>,gl |-> <<[ph |-> 0, n |-> 1]>>,old |-> (2 :> 1),fl |-> (2 :> 1),g |-> [ph |-> 1, n |-> 1],it |-> <<1>>,cell |-> 2,p |-> <<0>>,wi |-> (2 :> 1),pc |-> <<"R3", "F4">>,nextObj |-> 3,tmp |-> <<[ph |-> 0, n |-> 0]>>,v |-> <<[ph |-> 0, n |-> 0], [ph |-> 0, n |-> 0]>>,ri |-> <<1, 2>>,lockOwner |-> 2,disposed |-> {}]),
    ([acc |-> [t |-> 2, k |-> "load", loc |-> "c", a |-> 1, b |-> 0],stack |-> <<<<>>, <<[pc |-> "W3", ri |-> 1, v |-> [ph |-> 0, n |-> 0], procedure |-> "flip_and_wait"]>>>>,c |-> <<[ph |-> 0, n |-> 0], [ph |-> 0, n |-> 0]>>,gl |-> <<[ph |-> 0, n |-> 1]>>,old |-> (2 :> 1),fl |-> (2 :> 1),g |-> [ph |-> 1, n |-> 1],it |-> <<1>>,cell |-> 2,p |-> <<0>>,wi |-> (2 :> 1),pc |-> <<"R3", "F7">>,nextObj |-> 3,tmp |-> <<[ph |-> 0, n |-> 0]>>,v |-> <<[ph |-> 0, n |-> 0], [ph |-> 0, n |-> 0]>>,ri |-> <<1, 2>>,lockOwner |-> 2,disposed |-> {}]),
    ([acc |-> [t |-> 2, k |-> "load", loc |-> "c", a |-> 1, b |-> 0],stack |-> <<<<>>, <<[pc |-> "W3", ri |-> 1, v |-> [ph |-> 0, n |-> 0], procedure |-> "flip_and_wait"]>>>>,c |-> <<[ph |-> 0, n |-> 0], [ph |-> 0, n |-> 0]>>,gl |-> <<[ph |-> 0, n |-> 1]>>,old |-> (2 :> 1),fl |-> (2 :> 1),g |-> [ph |-> 1, n |-> 1],it |-> <<1>>,cell |-> 2,p |-> <<0>>,wi |-> (2 :> 1),pc |-> <<"R3", "F3">>,nextObj |-> 3,tmp |-> <<[ph |-> 0, n |-> 0]>>,v |-> <<[ph |-> 0, n |-> 0], [ph |-> 0, n |-> 0]>>,ri |-> <<1, 3>>,lockOwner |-> 2,disposed |-> {}]),
    ([acc |-> [t |-> 2, k |-> "load", loc |-> "c", a |-> 1, b |-> 0],stack |-> <<<<>>, <<>>>>,c |-> <<[ph |-> 0, n |-> 0], [ph |-> 0, n |-> 0]>>,gl |-> <<[ph |-> 0, n |-> 1]>>,old |-> (2 :> 1),fl |-> (2 :> 1),g |-> [ph |-> 1, n |-> 1],it |-> <<1>>,cell |-> 2,p |-> <<0>>,wi |-> (2 :> 1),pc |-> <<"R3", "W3">>,nextObj |-> 3,tmp |-> <<[ph |-> 0, n |-> 0]>>,v |-> <<[ph |-> 0, n |-> 0], [ph |-> 0, n |-> 0]>>,ri |-> <<1, 1>>,lockOwner |-> 2,disposed |-> {}]),
    ([acc |-> [t |-> 2, k |-> "load", loc |-> "c", a |-> 1, b |-> 0],stack |-> <<<<>>, <<>>>>,c |-> <<[ph |-> 0, n |-> 0], [ph |-> 0, n |-> 0]>>,gl |-> <<[ph |-> 0, n |-> 1]>>,old |-> (2 :> 1),fl |-> (2 :> 1),g |-> [ph |-> 1, n |-> 1],it |-> <<1>>,cell |-> 2,p |-> <<0>>,wi |-> (2 :> 1),pc |-> <<"R3", "W4">>,nextObj |-> 3,tmp |-> <<[ph |-> 0, n |-> 0]>>,v |-> <<[ph |-> 0, n |-> 0], [ph |-> 0, n |-> 0]>>,ri |-> <<1, 1>>,lockOwner |-> 2,disposed |-> {}]),
    ([acc |-> [t |-> 2, k |-> "unlock", loc |-> "m", a |-> 0, b |-> 0],stack |-> <<<<>>, <<>>>>,c |-> <<[ph |-> 0, n |-> 0], [ph |-> 0, n |-> 0]>>,gl |-> <<[ph |-> 0, n |-> 1]>>,old |-> (2 :> 1),fl |-> (2 :> 1),g |-> [ph |-> 1, n |-> 1],it |-> <<1>>,cell |-> 2,p |-> <<0>>,wi |-> (2 :> 1),pc |-> <<"R3", "W5">>,nextObj |-> 3,tmp |-> <<[ph |-> 0, n |-> 0]>>,v |-> <<[ph |-> 0, n |-> 0], [ph |-> 0, n |-> 0]>>,ri |-> <<1, 1>>,lockOwner |-> 0,disposed |-> {}]),
    ([acc |-> [t |-> 2, k |-> "dispose", loc |-> "", a |-> 1, b |-> 0],stack |-> <<<<>>, <<>>>>,c |-> <<[ph |-> 0, n |-> 0], [ph |-> 0, n |-> 0]>>,gl |-> <<[ph |-> 0, n |-> 1]>>,old |-> (2 :> 1),fl |-> (2 :> 1),g |-> [ph |-> 1, n |-> 1],it |-> <<1>>,cell |-> 2,p |-> <<0>>,wi |-> (2 :> 1),pc |-> <<"R3", "W0">>,nextObj |-> 3,tmp |-> <<[ph |-> 0, n |-> 0]>>,v |-> <<[ph |-> 0, n |-> 0], [ph |-> 0, n |-> 0]>>,ri |-> <<1, 1>>,lockOwner |-> 0,disposed |-> {1}]),
    ([acc |-> [t |-> 2, k |-> "dispose", loc |-> "", a |-> 1, b |-> 0],stack |-> <<<<>>, <<>>>>,c |-> <<[ph |-> 0, n |-> 0], [ph |-> 0, n |-> 0]>>,gl |-> <<[ph |-> 0, n |-> 1]>>,old |-> (2 :> 1),fl |-> (2 :> 1),g |-> [ph |-> 1, n |-> 1],it |-> <<1>>,cell |-> 2,p |-> <<0>>,wi |-> (2 :> 2),pc |-> <<"R3", "W1">>,nextObj |-> 3,tmp |-> <<[ph |-> 0, n |-> 0]>>,v |-> <<[ph |-> 0, n |-> 0], [ph |-> 0, n |-> 0]>>,ri |-> <<1, 1>>,lockOwner |-> 0,disposed |-> {1}]),
    ([acc |-> [t |-> 1, k |-> "store", loc |-> "c", a |-> 1, b |-> 1],stack |-> <<<<>>, <<>>>>,c |-> <<[ph |-> 0, n |-> 1], [ph |-> 0, n |-> 0]>>,gl |-> <<[ph |-> 0, n |-> 1]>>,old |-> (2 :> 1),fl |-> (2 :> 1),g |-> [ph |-> 1, n |-> 1],it |-> <<1>>,cell |-> 2,p |-> <<0>>,wi |-> (2 :> 2),pc |-> <<"R4", "W1">>,nextObj |-> 3,tmp |-> <<[ph |-> 0, n |-> 0]>>,v |-> <<[ph |-> 0, n |-> 0], [ph |-> 0, n |-> 0]>>,ri |-> <<1, 1>>,lockOwner |-> 0,disposed |-> {1}]),
    ([acc |-> [t |-> 1, k |-> "load", loc |-> "cell", a |-> 2, b |-> 0],stack |-> <<<<>>, <<>>>>,c |-> <<[ph |-> 0, n |-> 1], [ph |-> 0, n |-> 0]>>,gl |-> <<[ph |-> 0, n |-> 1]>>,old |-> (2 :> 1),fl |-> (2 :> 1),g |-> [ph |-> 1, n |-> 1],it |-> <<1>>,cell |-> 2,p |-> <<2>>,wi |-> (2 :> 2),pc |-> <<"R5", "W1">>,nextObj |-> 3,tmp |-> <<[ph |-> 0, n |-> 0]>>,v |-> <<[ph |-> 0, n |-> 0], [ph |-> 0, n |-> 0]>>,ri |-> <<1, 1>>,lockOwner |-> 0,disposed |-> {1}]),
    ([acc |-> [t |-> 2, k |-> "xchg", loc |-> "cell", a |-> 2, b |-> 3],stack |-> <<<<>>, <<>>>>,c |-> <<[ph |-> 0, n |-> 1], [ph |-> 0, n |-> 0]>>,gl |-> <<[ph |-> 0, n |-> 1]>>,old |-> (2 :> 2),fl |-> (2 :> 1),g |-> [ph |-> 1, n |-> 1],it |-> <<1>>,cell |-> 3,p |-> <<2>>,wi |-> (2 :> 2),pc |-> <<"R5", "W2">>,nextObj |-> 4,tmp |-> <<[ph |-> 0, n |-> 0]>>,v |-> <<[ph |-> 0, n |-> 0], [ph |-> 0, n |-> 0]>>,ri |-> <<1, 1>>,lockOwner |-> 0,disposed |-> {1}]),
    ([acc |-> [t |-> 2, k |-> "lock", loc |-> "m", a |-> 0, b |-> 0],stack |-> <<<<>>, <<>>>>,c |-> <<[ph |-> 0, n |-> 1], [ph |-> 0, n |-> 0]>>,gl |-> <<[ph |-> 0, n |-> 1]>>,old |-> (2 :> 2),fl |-> (2 :> 0),g |-> [ph |-> 1, n |-> 1],it |-> <<1>>,cell |-> 3,p |-> <<2>>,wi |-> (2 :> 2),pc |-> <<"R5", "W3">>,nextObj |-> 4,tmp |-> <<[ph |-> 0, n |-> 0]>>,v |-> <<[ph |-> 0, n |-> 0], [ph |-> 0, n |-> 0]>>,ri |-> <<1, 1>>,lockOwner |-> 2,disposed |-> {1}]),
    ([acc |-> [t |-> 2, k |-> "lock", loc |-> "m", a |-> 0, b |-> 0],stack |-> <<<<>>, <<[pc |-> "W3", ri |-> 1, v |-> [ph |-> 0, n |-> 0], procedure |-> "flip_and_wait"]>>>>,c |-> <<[ph |-> 0, n |-> 1], [ph |-> 0, n |-> 0]>>,gl |-> <<[ph |-> 0, n |-> 1]>>,old |-> (2 :> 2),fl |-> (2 :> 1),g |-> [ph |-> 1, n |-> 1],it |-> <<1>>,cell |-> 3,p |-> <<2>>,wi |-> (2 :> 2),pc |-> <<"R5", "F1">>,nextObj |-> 4,tmp |-> <<[ph |-> 0, n |-> 0]>>,v |-> <<[ph |-> 0, n |-> 0], [ph |-> 0, n |-> 0]>>,ri |-> <<1, 1>>,lockOwner |-> 2,disposed |-> {1}]),
    ([acc |-> [t |-> 2, k |-> "fxor", loc |-> "g", a |-> 1001, b |-> 0],stack |-> <<<<>>, <<[pc |-> "W3", ri |-> 1, v |-> [ph |-> 0, n |-> 0], procedure |-> "flip_and_wait"]>>>>,c |-> <<[ph |-> 0, n |-> 1], [ph |-> 0, n |-> 0]>>,gl |-> <<[ph |-> 0, n |-> 1]>>,old |-> (2 :> 2),fl |-> (2 :> 1),g |-> [ph |-> 0, n |-> 1],it |-> <<1>>,cell |-> 3,p |-> <<2>>,wi |-> (2 :> 2),pc |-> <<"R5", "F2">>,nextObj |-> 4,tmp |-> <<[ph |-> 0, n |-> 0]>>,v |-> <<[ph |-> 0, n |-> 0], [ph |-> 0, n |-> 0]>>,ri |-> <<1, 1>>,lockOwner |-> 2,disposed |-> {1}]),
    ([acc |-> [t |-> 2, k |-> "load", loc |-> "tlist", a |-> 0, b |-> 0],stack |-> <<<<>>, <<[pc |-> "W3", ri |-> 1, v |-> [ph |-> 0, n |-> 0], procedure |-> "flip_and_wait"]>>>>,c |-> <<[ph |-> 0, n |-> 1], [ph |-> 0, n |-> 0]>>,gl |-> <<[ph |-> 0, n |-> 1]>>,old |-> (2 :> 2),fl |-> (2 :> 1),g |-> [ph |-> 0, n |-> 1],it |-> <<1>>,cell |-> 3,p |-> <<2>>,wi |-> (2 :> 2),pc |-> <<"R5", "F3">>,nextObj |-> 4,tmp |-> <<[ph |-> 0, n |-> 0]>>,v |-> <<[ph |-> 0, n |-> 0], [ph |-> 0, n |-> 0]>>,ri |-> <<1, 1>>,lockOwner |-> 2,disposed |-> {1}]),
    ([acc |-> [t |-> 2, k |-> "load", loc |-> "tid", a |-> 2, b |-> 0],stack |-> <<<<>>, <<[pc |-> "W3", ri |-> 1, v |-> [ph |-> 0, n |-> 0], procedure |-> "flip_and_wait"]>>>>,c |-> <<[ph |-> 0, n |-> 1], [ph |-> 0, n |-> 0]>>,gl |-> <<[ph |-> 0, n |-> 1]>>,old |-> (2 :> 2),fl |-> (2 :> 1),g |-> [ph |-> 0, n |-> 1],it |-> <<1>>,cell |-> 3,p |-> <<2>>,wi |-> (2 :> 2),pc |-> <<"R5", "F4">>,nextObj |-> 4,tmp |-> <<[ph |-> 0, n |-> 0]>>,v |-> <<[ph |-> 0, n |-> 0], [ph |-> 0, n |-> 0]>>,ri |-> <<1, 1>>,lockOwner |-> 2,disposed |-> {1}]),
    ([acc |-> [t |-> 2, k |-> "load", loc |-> "c", a |-> 2, b |-> 0],stack |-> <<<<>>, <<[pc |-> "W3", ri |-> 1, v |-> [ph |-> 0, n |-> 0], procedure |-> "flip_and_wait"]>>>>,c |-> <<[ph |-> 0, n |-> 1], [ph |-> 0, n |-> 0]>>,gl |-> <<[ph |-> 0, n |-> 1]>>,old |-> (2 :> 2),fl |-> (2 :> 1),g |-> [ph |-> 0, n |-> 1],it |-> <<1>>,cell |-> 3,p |-> <<2>>,wi |-> (2 :> 2),pc |-> <<"R5", "F7">>,nextObj |-> 4,tmp |-> <<[ph |-> 0, n |-> 0]>>,v |-> <<[ph |-> 0, n |-> 0], [ph |-> 0, n |-> 0]>>,ri |-> <<1, 1>>,lockOwner |-> 2,disposed |-> {1}]),
    ([acc |-> [t |-> 2, k |-> "load", loc |-> "c", a |-> 2, b |-> 0],stack |-> <<<<>>, <<[pc |-> "W3", ri |-> 1, v |-> [ph |-> 0, n |-> 0], procedure |-> "flip_and_wait"]>>>>,c |-> <<[ph |-> 0, n |-> 1], [ph |-> 0, n |-> 0]>>,gl |-> <<[ph |-> 0, n |-> 1]>>,old |-> (2 :> 2),fl |-> (2 :> 1),g |-> [ph |-> 0, n |-> 1],it |-> <<1>>,cell |-> 3,p |-> <<2>>,wi |-> (2 :> 2),pc |-> <<"R5", "F3">>,nextObj |-> 4,tmp |-> <<[ph |-> 0, n |-> 0]>>,v |-> <<[ph |-> 0, n |-> 0], [ph |-> 0, n |-> 0]>>,ri |-> <<1, 2>>,lockOwner |-> 2,disposed |-> {1}]),
    ([acc |-> [t |-> 2, k |-> "load", loc |-> "tid", a |-> 1, b |-> 0],stack |-> <<<<>>, <<[pc |-> "W3", ri |-> 1, v |-> [ph |-> 0, n |-> 0], procedure |-> "flip_and_wait"]>>>>,c |-> <<[ph |-> 0, n |-> 1], [ph |-> 0, n |-> 0]>>,gl |-> <<[ph |-> 0, n |-> 1]>>,old |-> (2 :> 2),fl |-> (2 :> 1),g |-> [ph |-> 0, n |-> 1],it |-> <<1>>,cell |-> 3,p |-> <<2>>,wi |-> (2 :> 2),pc |-> <<"R5", "F4">>,nextObj |-> 4,tmp |-> <<[ph |-> 0, n |-> 0]>>,v |-> <<[ph |-> 0, n |-> 0], [ph |-> 0, n |-> 0]>>,ri |-> <<1, 2>>,lockOwner |-> 2,disposed |-> {1}]),
    ([acc |-> [t |-> 2, k |-> "load", loc |-> "c", a |-> 1, b |-> 1],stack |-> <<<<>>, <<[pc |-> "W3", ri |-> 1, v |-> [ph |-> 0, n |-> 0], procedure |-> "flip_and_wait"]>>>>,c |-> <<[ph |-> 0, n |-> 1], [ph |-> 0, n |-> 0]>>,gl |-> <<[ph |-> 0, n |-> 1]>>,old |-> (2 :> 2),fl |-> (2 :> 1),g |-> [ph |-> 0, n |-> 1],it |-> <<1>>,cell |-> 3,p |-> <<2>>,wi |-> (2 :> 2),pc |-> <<"R5", "F5">>,nextObj |-> 4,tmp |-> <<[ph |-> 0, n |-> 0]>>,v |-> <<[ph |-> 0, n |-> 0], [ph |-> 0, n |-> 1]>>,ri |-> <<1, 2>>,lockOwner |-> 2,disposed |-> {1}]),
    ([acc |-> [t |-> 2, k |-> "load", loc |-> "g", a |-> 1, b |-> 0],stack |-> <<<<>>, <<[pc |-> "W3", ri |-> 1, v |-> [ph |-> 0, n |-> 0], procedure |-> "flip_and_wait"]>>>>,c |-> <<[ph |-> 0, n |-> 1], [ph |-> 0, n |-> 0]>>,gl |-> <<[ph |-> 0, n |-> 1]>>,old |-> (2 :> 2),fl |-> (2 :> 1),g |-> [ph |-> 0, n |-> 1],it |-> <<1>>,cell |-> 3,p |-> <<2>>,wi |-> (2 :> 2),pc |-> <<"R5", "F7">>,nextObj |-> 4,tmp |-> <<[ph |-> 0, n |-> 0]>>,v |-> <<[ph |-> 0, n |-> 0], [ph |-> 0, n |-> 1]>>,ri |-> <<1, 2>>,lockOwner |-> 2,disposed |-> {1}]),
    ([acc |-> [t |-> 2, k |-> "load", loc |-> "g", a |-> 1, b |-> 0],stack |-> <<<<>>, <<[pc |-> "W3", ri |-> 1, v |-> [ph |-> 0, n |-> 0], procedure |-> "flip_and_wait"]>>>>,c |-> <<[ph |-> 0, n |-> 1], [ph |-> 0, n |-> 0]>>,gl |-> <<[ph |-> 0, n |-> 1]>>,old |-> (2 :> 2),fl |-> (2 :> 1),g |-> [ph |-> 0, n |-> 1],it |-> <<1>>,cell |-> 3,p |-> <<2>>,wi |-> (2 :> 2),pc |-> <<"R5", "F3">>,nextObj |-> 4,tmp |-> <<[ph |-> 0, n |-> 0]>>,v |-> <<[ph |-> 0, n |-> 0], [ph |-> 0, n |-> 1]>>,ri |-> <<1, 3>>,lockOwner |-> 2,disposed |-> {1}]),
    ([acc |-> [t |-> 2, k |-> "load", loc |-> "g", a |-> 1, b |-> 0],stack |-> <<<<>>, <<>>>>,c |-> <<[ph |-> 0, n |-> 1], [ph |-> 0, n |-> 0]>>,gl |-> <<[ph |-> 0, n |-> 1]>>,old |-> (2 :> 2),fl |-> (2 :> 1),g |-> [ph |-> 0, n |-> 1],it |-> <<1>>,cell |-> 3,p |-> <<2>>,wi |-> (2 :> 2),pc |-> <<"R5", "W3">>,nextObj |-> 4,tmp |-> <<[ph |-> 0, n |-> 0]>>,v |-> <<[ph |-> 0, n |-> 0], [ph |-> 0, n |-> 0]>>,ri |-> <<1, 1>>,lockOwner |-> 2,disposed |-> {1}]),
    ([acc |-> [t |-> 2, k |-> "load", loc |-> "g", a |-> 1, b |-> 0],stack |-> <<<<>>, <<>>>>,c |-> <<[ph |-> 0, n |-> 1], [ph |-> 0, n |-> 0]>>,gl |-> <<[ph |-> 0, n |-> 1]>>,old |-> (2 :> 2),fl |-> (2 :> 1),g |-> [ph |-> 0, n |-> 1],it |-> <<1>>,cell |-> 3,p |-> <<2>>,wi |-> (2 :> 2),pc |-> <<"R5", "W4">>,nextObj |-> 4,tmp |-> <<[ph |-> 0, n |-> 0]>>,v |-> <<[ph |-> 0, n |-> 0], [ph |-> 0, n |-> 0]>>,ri |-> <<1, 1>>,lockOwner |-> 2,disposed |-> {1}]),
    ([acc |-> [t |-> 2, k |-> "unlock", loc |-> "m", a |-> 0, b |-> 0],stack |-> <<<<>>, <<>>>>,c |-> <<[ph |-> 0, n |-> 1], [ph |-> 0, n |-> 0]>>,gl |-> <<[ph |-> 0, n |-> 1]>>,old |-> (2 :> 2),fl |-> (2 :> 1),g |-> [ph |-> 0, n |-> 1],it |-> <<1>>,cell |-> 3,p |-> <<2>>,wi |-> (2 :> 2),pc |-> <<"R5", "W5">>,nextObj |-> 4,tmp |-> <<[ph |-> 0, n |-> 0]>>,v |-> <<[ph |-> 0, n |-> 0], [ph |-> 0, n |-> 0]>>,ri |-> <<1, 1>>,lockOwner |-> 0,disposed |-> {1}]),
    ([acc |-> [t |-> 2, k |-> "dispose", loc |-> "", a |-> 2, b |-> 0],stack |-> <<<<>>, <<>>>>,c |-> <<[ph |-> 0, n |-> 1], [ph |-> 0, n |-> 0]>>,gl |-> <<[ph |-> 0, n |-> 1]>>,old |-> (2 :> 2),fl |-> (2 :> 1),g |-> [ph |-> 0, n |-> 1],it |-> <<1>>,cell |-> 3,p |-> <<2>>,wi |-> (2 :> 2),pc |-> <<"R5", "W0">>,nextObj |-> 4,tmp |-> <<[ph |-> 0, n |-> 0]>>,v |-> <<[ph |-> 0, n |-> 0], [ph |-> 0, n |-> 0]>>,ri |-> <<1, 1>>,lockOwner |-> 0,disposed |-> {1, 2}])
    >>
----


=============================================================================

---- CONFIG GPIMC_TTrace_1790088463 ----
CONSTANTS
    Readers = { 1 }
    Writers = { 2 }
    Flips = 1
    RIter = 2
    WIter = 2
    Order <- MCOrder

INVARIANT
    _inv

CHECK_DEADLOCK
    \* CHECK_DEADLOCK off because of PROPERTY or INVARIANT above.
    FALSE

INIT
    _init

NEXT
    _next

CONSTANT
    _TETrace <- _trace

ALIAS
    _expression
=============================================================================
\* Generated on Tue Sep 22 14:47:59 UTC 2026