SPECIFICATION Spec
CONSTANTS
  Threads = {1, 2}
  K = 1
  R = 3
  NObj = 4
  NCell = 1
  MaxOps = 3
  StopAtEmpty = FALSE
  ScanBug = FALSE
INVARIANT ExactlyOnce
INVARIANT FinalOK
INVARIANT AllRetiredDisposed
CHECK_DEADLOCK FALSE
