---- MODULE HPMC ----
EXTENDS HP
ExactlyOnce == \A o \in Obj : dcount[o] <= 1
FinalOK == destroyed => \A o \in Obj : (ostate[o] = "disposed") <=> (dcount[o] = 1)
AllRetiredDisposed == destroyed => \A o \in Obj : ostate[o] # "retired"
====
