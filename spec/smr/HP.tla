---- MODULE HP ----
EXTENDS Naturals, Sequences, FiniteSets, TLC
CONSTANTS Threads,      \* client threads
          K,            \* hazard slots per record
          R,            \* retired array capacity
          NObj,         \* number of objects
          NCell,        \* number of shared link cells
          MaxOps,       \* client operations per thread between attach and detach
          ScanBug,      \* TRUE: classic_scan as coded (tests first retired ptr for every element)
          StopAtEmpty   \* TRUE: seeded change C01: the hazard-slot loop of the scan stops at the first empty slot of a record
Obj == 1..NObj
Rec == 1..Cardinality(Threads)          \* at most one record per thread is ever created
NULL == 0
Slots == 1..K
SeqToSet(s) == { s[j] : j \in 1..Len(s) }

(* --algorithm HP {
variables
  list = <<>>,                                  \* thread_list_, head first
  owner = [r \in Rec |-> FALSE],                 \* owner_rec_ != nullptr
  freeFlag = [r \in Rec |-> FALSE],              \* free_
  hp = [r \in Rec |-> [k \in Slots |-> NULL]],
  retired = [r \in Rec |-> <<>>],                \* retired_ (private to the owner)
  nrec = 0,                                      \* records created so far
  cell = [c \in 1..NCell |-> c],                 \* shared links; initially cell c -> object c
  nextObj = NCell + 1,                           \* next fresh object
  ostate = [o \in Obj |-> IF o <= NCell THEN "linked" ELSE "fresh"],
  dcount = [o \in Obj |-> 0],
  \* ghosts
  snap = [t \in Threads |-> {}],                 \* <<r,k,o>> hazards in place since the current pass of t began
  valid = [t \in Threads |-> [k \in Slots |-> NULL]],   \* object the client holds a validated guard on
  destroyed = FALSE,
  fin = [t \in Threads |-> FALSE];

define {
  AllHaz == { <<r, k, hp[r][k]>> : r \in Rec, k \in Slots } 
  HazSet == { x \in AllHaz : x[3] # NULL }
}

macro StoreHP(r, k, v) {
  hp[r][k] := v;
  snap := [t \in Threads |-> { x \in snap[t] : ~(x[1] = r /\ x[2] = k) }];
}

procedure scan()
  variables plist = {}, idx = 1, ri = 1, hi = 1, keep = <<>>, firstp = NULL;
{
SC0: snap[self] := HazSet; plist := {}; ri := 1;        \* pass begins (sync(); load thread_list_)
SC1: while (ri <= Len(list)) {
       if (owner[list[ri]]) {                              \* load owner_rec_
         hi := 1;
SC2:     while (hi <= K) {                                 \* load hazard slot
           if (hp[list[ri]][hi] # NULL) { plist := plist \cup {hp[list[ri]][hi]}; hi := hi + 1; }
           else if (StopAtEmpty) { hi := K + 1; } else { hi := hi + 1; };
         };
       };
SC3:   ri := ri + 1;
     };
SC4: idx := 1; keep := <<>>; firstp := IF retired[rec] = <<>> THEN NULL ELSE retired[rec][1];
SC5: while (idx <= Len(retired[rec])) {
       with (o = retired[rec][idx], tst = IF ScanBug THEN firstp ELSE retired[rec][idx]) {
         if (tst \in plist) { keep := Append(keep, o); }
         else {
           \* dispose(o)
           assert ~(\E x \in snap[self] : x[3] = o);       \* SafeDispose
           dcount[o] := dcount[o] + 1; ostate[o] := "disposed";
         };
       };
       idx := idx + 1;
     };
SC6: retired[rec] := keep;
     return;
}

procedure help_scan()
  variables hr = 1, mi = 1;
{
HS0: hr := 1;
HS1: while (hr <= Len(list)) {
       if (list[hr] = rec) { hr := hr + 1; }
       else {
HS2:     if (freeFlag[list[hr]]) { hr := hr + 1; }          \* load free_
         else {
HS3:       if (owner[list[hr]]) { hr := hr + 1; }            \* load owner_rec_
           else {
HS4:         if (owner[list[hr]]) { hr := hr + 1; }          \* CAS owner null -> rec
             else {
               owner[list[hr]] := TRUE;
               mi := 1;
HS5:           while (mi <= Len(retired[list[hr]])) {
                 assert Len(retired[rec]) < R;         \* push never writes past last_
                 retired[rec] := Append(retired[rec], retired[list[hr]][mi]);
                 mi := mi + 1;
                 if (Len(retired[rec]) >= R) { call scan(); };
               };
HS6:           retired[list[hr]] := <<>>;                    \* interthread_clear
HS7:           freeFlag[list[hr]] := TRUE;
HS8:           owner[list[hr]] := FALSE;
               call scan();
HS9:           hr := hr + 1;
             };
           };
         };
       };
     };
     return;
}

process (T \in Threads)
  variables rec = NULL, ai = 1, ops = 0, cur = NULL, ret = NULL, kk = 1, cc = 1, old = NULL, ci = 1;
{
\* ---- attach: alloc_thread_data
A0:  ai := 1;
A1:  while (ai <= Len(list) /\ rec = NULL) {                 \* CAS owner null -> rec
       if (~owner[list[ai]]) { owner[list[ai]] := TRUE; rec := list[ai]; }
       else { ai := ai + 1; };
     };
     if (rec # NULL) {
A2:    freeFlag[rec] := FALSE;
     } else {
A3:    nrec := nrec + 1; rec := nrec; owner[rec] := TRUE;    \* create_thread_data (private), then CAS push
       list := <<rec>> \o list;
     };
\* ---- client operations
C0:  while (ops < MaxOps) {
       ops := ops + 1;
       either {  \* protect(cell cc, slot kk)
         with (c \in 1..NCell, k \in Slots) { cc := c; kk := k; };
P1:      cur := cell[cc];                                     \* load (relaxed)
P2:      ret := cur; StoreHP(rec, kk, cur); valid[self][kk] := NULL;
P3:      cur := cell[cc];                                     \* load (acquire)
         if (ret # cur) { goto P2; } else { valid[self][kk] := cur; };
       } or {    \* dereference through a validated guard
         with (k \in { s \in Slots : valid[self][s] # NULL }) {
           assert ostate[valid[self][k]] # "disposed";       \* NoUseAfterDispose
         };
       } or {    \* clear guard
         with (k \in { s \in Slots : hp[rec][s] # NULL }) { kk := k; };
G1:      StoreHP(rec, kk, NULL); valid[self][kk] := NULL;
       } or {    \* replace the object in a cell and retire the old one
         await nextObj <= NObj;
         with (c \in 1..NCell) { cc := c; };
U1:      if (nextObj <= NObj) {
           old := cell[cc]; ostate[nextObj] := "linked" || ostate[cell[cc]] := "retired";
           cell[cc] := nextObj; nextObj := nextObj + 1;   \* CAS in the container
U2:        assert Len(retired[rec]) < R;
           retired[rec] := Append(retired[rec], old);          \* retire(): push
           if (Len(retired[rec]) >= R) { call scan(); };
         };
       } or {    \* force_dispose
         call scan();
       };
C1:    skip;
     };
\* ---- detach: free_thread_data
D0:  ci := 1;
D1:  while (ci <= K) { StoreHP(rec, ci, NULL); valid[self][ci] := NULL; ci := ci + 1; };
D2:  call scan();
D3:  call help_scan();
D4:  owner[rec] := FALSE; rec := NULL;
     fin[self] := TRUE;
}

process (Main = 0)
{
M0: await \A t \in Threads : fin[t];
M1: \* ~basic_smr: free remaining retired pointers of all records
    dcount := [o \in Obj |-> dcount[o] + Cardinality({ r \in Rec : o \in SeqToSet(retired[r]) })];
    ostate := [o \in Obj |-> IF \E r \in Rec : o \in SeqToSet(retired[r]) THEN "disposed" ELSE ostate[o]];
    retired := [r \in Rec |-> <<>>];
    destroyed := TRUE;
}
} *)
\* BEGIN TRANSLATION
VARIABLES pc, list, owner, freeFlag, hp, retired, nrec, cell, nextObj, ostate, 
          dcount, snap, valid, destroyed, fin, stack

(* define statement *)
AllHaz == { <<r, k, hp[r][k]>> : r \in Rec, k \in Slots }
HazSet == { x \in AllHaz : x[3] # NULL }

VARIABLES plist, idx, ri, hi, keep, firstp, hr, mi, rec, ai, ops, cur, ret, 
          kk, cc, old, ci

vars == << pc, list, owner, freeFlag, hp, retired, nrec, cell, nextObj, 
           ostate, dcount, snap, valid, destroyed, fin, stack, plist, idx, ri, 
           hi, keep, firstp, hr, mi, rec, ai, ops, cur, ret, kk, cc, old, ci
        >>

ProcSet == (Threads) \cup {0}

Init == (* Global variables *)
        /\ list = <<>>
        /\ owner = [r \in Rec |-> FALSE]
        /\ freeFlag = [r \in Rec |-> FALSE]
        /\ hp = [r \in Rec |-> [k \in Slots |-> NULL]]
        /\ retired = [r \in Rec |-> <<>>]
        /\ nrec = 0
        /\ cell = [c \in 1..NCell |-> c]
        /\ nextObj = NCell + 1
        /\ ostate = [o \in Obj |-> IF o <= NCell THEN "linked" ELSE "fresh"]
        /\ dcount = [o \in Obj |-> 0]
        /\ snap = [t \in Threads |-> {}]
        /\ valid = [t \in Threads |-> [k \in Slots |-> NULL]]
        /\ destroyed = FALSE
        /\ fin = [t \in Threads |-> FALSE]
        (* Procedure scan *)
        /\ plist = [ self \in ProcSet |-> {}]
        /\ idx = [ self \in ProcSet |-> 1]
        /\ ri = [ self \in ProcSet |-> 1]
        /\ hi = [ self \in ProcSet |-> 1]
        /\ keep = [ self \in ProcSet |-> <<>>]
        /\ firstp = [ self \in ProcSet |-> NULL]
        (* Procedure help_scan *)
        /\ hr = [ self \in ProcSet |-> 1]
        /\ mi = [ self \in ProcSet |-> 1]
        (* Process T *)
        /\ rec = [self \in Threads |-> NULL]
        /\ ai = [self \in Threads |-> 1]
        /\ ops = [self \in Threads |-> 0]
        /\ cur = [self \in Threads |-> NULL]
        /\ ret = [self \in Threads |-> NULL]
        /\ kk = [self \in Threads |-> 1]
        /\ cc = [self \in Threads |-> 1]
        /\ old = [self \in Threads |-> NULL]
        /\ ci = [self \in Threads |-> 1]
        /\ stack = [self \in ProcSet |-> << >>]
        /\ pc = [self \in ProcSet |-> CASE self \in Threads -> "A0"
                                        [] self = 0 -> "M0"]

SC0(self) == /\ pc[self] = "SC0"
             /\ snap' = [snap EXCEPT ![self] = HazSet]
             /\ plist' = [plist EXCEPT ![self] = {}]
             /\ ri' = [ri EXCEPT ![self] = 1]
             /\ pc' = [pc EXCEPT ![self] = "SC1"]
             /\ UNCHANGED << list, owner, freeFlag, hp, retired, nrec, cell, 
                             nextObj, ostate, dcount, valid, destroyed, fin, 
                             stack, idx, hi, keep, firstp, hr, mi, rec, ai, 
                             ops, cur, ret, kk, cc, old, ci >>

SC1(self) == /\ pc[self] = "SC1"
             /\ IF ri[self] <= Len(list)
                   THEN /\ IF owner[list[ri[self]]]
                              THEN /\ hi' = [hi EXCEPT ![self] = 1]
                                   /\ pc' = [pc EXCEPT ![self] = "SC2"]
                              ELSE /\ pc' = [pc EXCEPT ![self] = "SC3"]
                                   /\ hi' = hi
                   ELSE /\ pc' = [pc EXCEPT ![self] = "SC4"]
                        /\ hi' = hi
             /\ UNCHANGED << list, owner, freeFlag, hp, retired, nrec, cell, 
                             nextObj, ostate, dcount, snap, valid, destroyed, 
                             fin, stack, plist, idx, ri, keep, firstp, hr, mi, 
                             rec, ai, ops, cur, ret, kk, cc, old, ci >>

SC3(self) == /\ pc[self] = "SC3"
             /\ ri' = [ri EXCEPT ![self] = ri[self] + 1]
             /\ pc' = [pc EXCEPT ![self] = "SC1"]
             /\ UNCHANGED << list, owner, freeFlag, hp, retired, nrec, cell, 
                             nextObj, ostate, dcount, snap, valid, destroyed, 
                             fin, stack, plist, idx, hi, keep, firstp, hr, mi, 
                             rec, ai, ops, cur, ret, kk, cc, old, ci >>

SC2(self) == /\ pc[self] = "SC2"
             /\ IF hi[self] <= K
                   THEN /\ IF hp[list[ri[self]]][hi[self]] # NULL
                              THEN /\ plist' = [plist EXCEPT ![self] = plist[self] \cup {hp[list[ri[self]]][hi[self]]}]
                                   /\ hi' = [hi EXCEPT ![self] = hi[self] + 1]
                              ELSE /\ IF StopAtEmpty
                                         THEN /\ hi' = [hi EXCEPT ![self] = K + 1]
                                         ELSE /\ hi' = [hi EXCEPT ![self] = hi[self] + 1]
                                   /\ plist' = plist
                        /\ pc' = [pc EXCEPT ![self] = "SC2"]
                   ELSE /\ pc' = [pc EXCEPT ![self] = "SC3"]
                        /\ UNCHANGED << plist, hi >>
             /\ UNCHANGED << list, owner, freeFlag, hp, retired, nrec, cell, 
                             nextObj, ostate, dcount, snap, valid, destroyed, 
                             fin, stack, idx, ri, keep, firstp, hr, mi, rec, 
                             ai, ops, cur, ret, kk, cc, old, ci >>

SC4(self) == /\ pc[self] = "SC4"
             /\ idx' = [idx EXCEPT ![self] = 1]
             /\ keep' = [keep EXCEPT ![self] = <<>>]
             /\ firstp' = [firstp EXCEPT ![self] = IF retired[rec[self]] = <<>> THEN NULL ELSE retired[rec[self]][1]]
             /\ pc' = [pc EXCEPT ![self] = "SC5"]
             /\ UNCHANGED << list, owner, freeFlag, hp, retired, nrec, cell, 
                             nextObj, ostate, dcount, snap, valid, destroyed, 
                             fin, stack, plist, ri, hi, hr, mi, rec, ai, ops, 
                             cur, ret, kk, cc, old, ci >>

SC5(self) == /\ pc[self] = "SC5"
             /\ IF idx[self] <= Len(retired[rec[self]])
                   THEN /\ LET o == retired[rec[self]][idx[self]] IN
                             LET tst == IF ScanBug THEN firstp[self] ELSE retired[rec[self]][idx[self]] IN
                               IF tst \in plist[self]
                                  THEN /\ keep' = [keep EXCEPT ![self] = Append(keep[self], o)]
                                       /\ UNCHANGED << ostate, dcount >>
                                  ELSE /\ Assert(~(\E x \in snap[self] : x[3] = o), 
                                                 "Failure of assertion at line 65, column 12.")
                                       /\ dcount' = [dcount EXCEPT ![o] = dcount[o] + 1]
                                       /\ ostate' = [ostate EXCEPT ![o] = "disposed"]
                                       /\ keep' = keep
                        /\ idx' = [idx EXCEPT ![self] = idx[self] + 1]
                        /\ pc' = [pc EXCEPT ![self] = "SC5"]
                   ELSE /\ pc' = [pc EXCEPT ![self] = "SC6"]
                        /\ UNCHANGED << ostate, dcount, idx, keep >>
             /\ UNCHANGED << list, owner, freeFlag, hp, retired, nrec, cell, 
                             nextObj, snap, valid, destroyed, fin, stack, 
                             plist, ri, hi, firstp, hr, mi, rec, ai, ops, cur, 
                             ret, kk, cc, old, ci >>

SC6(self) == /\ pc[self] = "SC6"
             /\ retired' = [retired EXCEPT ![rec[self]] = keep[self]]
             /\ pc' = [pc EXCEPT ![self] = Head(stack[self]).pc]
             /\ plist' = [plist EXCEPT ![self] = Head(stack[self]).plist]
             /\ idx' = [idx EXCEPT ![self] = Head(stack[self]).idx]
             /\ ri' = [ri EXCEPT ![self] = Head(stack[self]).ri]
             /\ hi' = [hi EXCEPT ![self] = Head(stack[self]).hi]
             /\ keep' = [keep EXCEPT ![self] = Head(stack[self]).keep]
             /\ firstp' = [firstp EXCEPT ![self] = Head(stack[self]).firstp]
             /\ stack' = [stack EXCEPT ![self] = Tail(stack[self])]
             /\ UNCHANGED << list, owner, freeFlag, hp, nrec, cell, nextObj, 
                             ostate, dcount, snap, valid, destroyed, fin, hr, 
                             mi, rec, ai, ops, cur, ret, kk, cc, old, ci >>

scan(self) == SC0(self) \/ SC1(self) \/ SC3(self) \/ SC2(self) \/ SC4(self)
                 \/ SC5(self) \/ SC6(self)

HS0(self) == /\ pc[self] = "HS0"
             /\ hr' = [hr EXCEPT ![self] = 1]
             /\ pc' = [pc EXCEPT ![self] = "HS1"]
             /\ UNCHANGED << list, owner, freeFlag, hp, retired, nrec, cell, 
                             nextObj, ostate, dcount, snap, valid, destroyed, 
                             fin, stack, plist, idx, ri, hi, keep, firstp, mi, 
                             rec, ai, ops, cur, ret, kk, cc, old, ci >>

HS1(self) == /\ pc[self] = "HS1"
             /\ IF hr[self] <= Len(list)
                   THEN /\ IF list[hr[self]] = rec[self]
                              THEN /\ hr' = [hr EXCEPT ![self] = hr[self] + 1]
                                   /\ pc' = [pc EXCEPT ![self] = "HS1"]
                              ELSE /\ pc' = [pc EXCEPT ![self] = "HS2"]
                                   /\ hr' = hr
                        /\ UNCHANGED << stack, mi >>
                   ELSE /\ pc' = [pc EXCEPT ![self] = Head(stack[self]).pc]
                        /\ hr' = [hr EXCEPT ![self] = Head(stack[self]).hr]
                        /\ mi' = [mi EXCEPT ![self] = Head(stack[self]).mi]
                        /\ stack' = [stack EXCEPT ![self] = Tail(stack[self])]
             /\ UNCHANGED << list, owner, freeFlag, hp, retired, nrec, cell, 
                             nextObj, ostate, dcount, snap, valid, destroyed, 
                             fin, plist, idx, ri, hi, keep, firstp, rec, ai, 
                             ops, cur, ret, kk, cc, old, ci >>

HS2(self) == /\ pc[self] = "HS2"
             /\ IF freeFlag[list[hr[self]]]
                   THEN /\ hr' = [hr EXCEPT ![self] = hr[self] + 1]
                        /\ pc' = [pc EXCEPT ![self] = "HS1"]
                   ELSE /\ pc' = [pc EXCEPT ![self] = "HS3"]
                        /\ hr' = hr
             /\ UNCHANGED << list, owner, freeFlag, hp, retired, nrec, cell, 
                             nextObj, ostate, dcount, snap, valid, destroyed, 
                             fin, stack, plist, idx, ri, hi, keep, firstp, mi, 
                             rec, ai, ops, cur, ret, kk, cc, old, ci >>

HS3(self) == /\ pc[self] = "HS3"
             /\ IF owner[list[hr[self]]]
                   THEN /\ hr' = [hr EXCEPT ![self] = hr[self] + 1]
                        /\ pc' = [pc EXCEPT ![self] = "HS1"]
                   ELSE /\ pc' = [pc EXCEPT ![self] = "HS4"]
                        /\ hr' = hr
             /\ UNCHANGED << list, owner, freeFlag, hp, retired, nrec, cell, 
                             nextObj, ostate, dcount, snap, valid, destroyed, 
                             fin, stack, plist, idx, ri, hi, keep, firstp, mi, 
                             rec, ai, ops, cur, ret, kk, cc, old, ci >>

HS4(self) == /\ pc[self] = "HS4"
             /\ IF owner[list[hr[self]]]
                   THEN /\ hr' = [hr EXCEPT ![self] = hr[self] + 1]
                        /\ pc' = [pc EXCEPT ![self] = "HS1"]
                        /\ UNCHANGED << owner, mi >>
                   ELSE /\ owner' = [owner EXCEPT ![list[hr[self]]] = TRUE]
                        /\ mi' = [mi EXCEPT ![self] = 1]
                        /\ pc' = [pc EXCEPT ![self] = "HS5"]
                        /\ hr' = hr
             /\ UNCHANGED << list, freeFlag, hp, retired, nrec, cell, nextObj, 
                             ostate, dcount, snap, valid, destroyed, fin, 
                             stack, plist, idx, ri, hi, keep, firstp, rec, ai, 
                             ops, cur, ret, kk, cc, old, ci >>

HS5(self) == /\ pc[self] = "HS5"
             /\ IF mi[self] <= Len(retired[list[hr[self]]])
                   THEN /\ Assert(Len(retired[rec[self]]) < R, 
                                  "Failure of assertion at line 91, column 18.")
                        /\ retired' = [retired EXCEPT ![rec[self]] = Append(retired[rec[self]], retired[list[hr[self]]][mi[self]])]
                        /\ mi' = [mi EXCEPT ![self] = mi[self] + 1]
                        /\ IF Len(retired'[rec[self]]) >= R
                              THEN /\ stack' = [stack EXCEPT ![self] = << [ procedure |->  "scan",
                                                                            pc        |->  "HS5",
                                                                            plist     |->  plist[self],
                                                                            idx       |->  idx[self],
                                                                            ri        |->  ri[self],
                                                                            hi        |->  hi[self],
                                                                            keep      |->  keep[self],
                                                                            firstp    |->  firstp[self] ] >>
                                                                        \o stack[self]]
                                   /\ plist' = [plist EXCEPT ![self] = {}]
                                   /\ idx' = [idx EXCEPT ![self] = 1]
                                   /\ ri' = [ri EXCEPT ![self] = 1]
                                   /\ hi' = [hi EXCEPT ![self] = 1]
                                   /\ keep' = [keep EXCEPT ![self] = <<>>]
                                   /\ firstp' = [firstp EXCEPT ![self] = NULL]
                                   /\ pc' = [pc EXCEPT ![self] = "SC0"]
                              ELSE /\ pc' = [pc EXCEPT ![self] = "HS5"]
                                   /\ UNCHANGED << stack, plist, idx, ri, hi, 
                                                   keep, firstp >>
                   ELSE /\ pc' = [pc EXCEPT ![self] = "HS6"]
                        /\ UNCHANGED << retired, stack, plist, idx, ri, hi, 
                                        keep, firstp, mi >>
             /\ UNCHANGED << list, owner, freeFlag, hp, nrec, cell, nextObj, 
                             ostate, dcount, snap, valid, destroyed, fin, hr, 
                             rec, ai, ops, cur, ret, kk, cc, old, ci >>

HS6(self) == /\ pc[self] = "HS6"
             /\ retired' = [retired EXCEPT ![list[hr[self]]] = <<>>]
             /\ pc' = [pc EXCEPT ![self] = "HS7"]
             /\ UNCHANGED << list, owner, freeFlag, hp, nrec, cell, nextObj, 
                             ostate, dcount, snap, valid, destroyed, fin, 
                             stack, plist, idx, ri, hi, keep, firstp, hr, mi, 
                             rec, ai, ops, cur, ret, kk, cc, old, ci >>

HS7(self) == /\ pc[self] = "HS7"
             /\ freeFlag' = [freeFlag EXCEPT ![list[hr[self]]] = TRUE]
             /\ pc' = [pc EXCEPT ![self] = "HS8"]
             /\ UNCHANGED << list, owner, hp, retired, nrec, cell, nextObj, 
                             ostate, dcount, snap, valid, destroyed, fin, 
                             stack, plist, idx, ri, hi, keep, firstp, hr, mi, 
                             rec, ai, ops, cur, ret, kk, cc, old, ci >>

HS8(self) == /\ pc[self] = "HS8"
             /\ owner' = [owner EXCEPT ![list[hr[self]]] = FALSE]
             /\ stack' = [stack EXCEPT ![self] = << [ procedure |->  "scan",
                                                      pc        |->  "HS9",
                                                      plist     |->  plist[self],
                                                      idx       |->  idx[self],
                                                      ri        |->  ri[self],
                                                      hi        |->  hi[self],
                                                      keep      |->  keep[self],
                                                      firstp    |->  firstp[self] ] >>
                                                  \o stack[self]]
             /\ plist' = [plist EXCEPT ![self] = {}]
             /\ idx' = [idx EXCEPT ![self] = 1]
             /\ ri' = [ri EXCEPT ![self] = 1]
             /\ hi' = [hi EXCEPT ![self] = 1]
             /\ keep' = [keep EXCEPT ![self] = <<>>]
             /\ firstp' = [firstp EXCEPT ![self] = NULL]
             /\ pc' = [pc EXCEPT ![self] = "SC0"]
             /\ UNCHANGED << list, freeFlag, hp, retired, nrec, cell, nextObj, 
                             ostate, dcount, snap, valid, destroyed, fin, hr, 
                             mi, rec, ai, ops, cur, ret, kk, cc, old, ci >>

HS9(self) == /\ pc[self] = "HS9"
             /\ hr' = [hr EXCEPT ![self] = hr[self] + 1]
             /\ pc' = [pc EXCEPT ![self] = "HS1"]
             /\ UNCHANGED << list, owner, freeFlag, hp, retired, nrec, cell, 
                             nextObj, ostate, dcount, snap, valid, destroyed, 
                             fin, stack, plist, idx, ri, hi, keep, firstp, mi, 
                             rec, ai, ops, cur, ret, kk, cc, old, ci >>

help_scan(self) == HS0(self) \/ HS1(self) \/ HS2(self) \/ HS3(self)
                      \/ HS4(self) \/ HS5(self) \/ HS6(self) \/ HS7(self)
                      \/ HS8(self) \/ HS9(self)

A0(self) == /\ pc[self] = "A0"
            /\ ai' = [ai EXCEPT ![self] = 1]
            /\ pc' = [pc EXCEPT ![self] = "A1"]
            /\ UNCHANGED << list, owner, freeFlag, hp, retired, nrec, cell, 
                            nextObj, ostate, dcount, snap, valid, destroyed, 
                            fin, stack, plist, idx, ri, hi, keep, firstp, hr, 
                            mi, rec, ops, cur, ret, kk, cc, old, ci >>

A1(self) == /\ pc[self] = "A1"
            /\ IF ai[self] <= Len(list) /\ rec[self] = NULL
                  THEN /\ IF ~owner[list[ai[self]]]
                             THEN /\ owner' = [owner EXCEPT ![list[ai[self]]] = TRUE]
                                  /\ rec' = [rec EXCEPT ![self] = list[ai[self]]]
                                  /\ ai' = ai
                             ELSE /\ ai' = [ai EXCEPT ![self] = ai[self] + 1]
                                  /\ UNCHANGED << owner, rec >>
                       /\ pc' = [pc EXCEPT ![self] = "A1"]
                  ELSE /\ IF rec[self] # NULL
                             THEN /\ pc' = [pc EXCEPT ![self] = "A2"]
                             ELSE /\ pc' = [pc EXCEPT ![self] = "A3"]
                       /\ UNCHANGED << owner, rec, ai >>
            /\ UNCHANGED << list, freeFlag, hp, retired, nrec, cell, nextObj, 
                            ostate, dcount, snap, valid, destroyed, fin, stack, 
                            plist, idx, ri, hi, keep, firstp, hr, mi, ops, cur, 
                            ret, kk, cc, old, ci >>

A2(self) == /\ pc[self] = "A2"
            /\ freeFlag' = [freeFlag EXCEPT ![rec[self]] = FALSE]
            /\ pc' = [pc EXCEPT ![self] = "C0"]
            /\ UNCHANGED << list, owner, hp, retired, nrec, cell, nextObj, 
                            ostate, dcount, snap, valid, destroyed, fin, stack, 
                            plist, idx, ri, hi, keep, firstp, hr, mi, rec, ai, 
                            ops, cur, ret, kk, cc, old, ci >>

A3(self) == /\ pc[self] = "A3"
            /\ nrec' = nrec + 1
            /\ rec' = [rec EXCEPT ![self] = nrec']
            /\ owner' = [owner EXCEPT ![rec'[self]] = TRUE]
            /\ list' = <<rec'[self]>> \o list
            /\ pc' = [pc EXCEPT ![self] = "C0"]
            /\ UNCHANGED << freeFlag, hp, retired, cell, nextObj, ostate, 
                            dcount, snap, valid, destroyed, fin, stack, plist, 
                            idx, ri, hi, keep, firstp, hr, mi, ai, ops, cur, 
                            ret, kk, cc, old, ci >>

C0(self) == /\ pc[self] = "C0"
            /\ IF ops[self] < MaxOps
                  THEN /\ ops' = [ops EXCEPT ![self] = ops[self] + 1]
                       /\ \/ /\ \E c \in 1..NCell:
                                  \E k \in Slots:
                                    /\ cc' = [cc EXCEPT ![self] = c]
                                    /\ kk' = [kk EXCEPT ![self] = k]
                             /\ pc' = [pc EXCEPT ![self] = "P1"]
                             /\ UNCHANGED <<stack, plist, idx, ri, hi, keep, firstp>>
                          \/ /\ \E k \in { s \in Slots : valid[self][s] # NULL }:
                                  Assert(ostate[valid[self][k]] # "disposed", 
                                         "Failure of assertion at line 135, column 12.")
                             /\ pc' = [pc EXCEPT ![self] = "C1"]
                             /\ UNCHANGED <<stack, plist, idx, ri, hi, keep, firstp, kk, cc>>
                          \/ /\ \E k \in { s \in Slots : hp[rec[self]][s] # NULL }:
                                  kk' = [kk EXCEPT ![self] = k]
                             /\ pc' = [pc EXCEPT ![self] = "G1"]
                             /\ UNCHANGED <<stack, plist, idx, ri, hi, keep, firstp, cc>>
                          \/ /\ nextObj <= NObj
                             /\ \E c \in 1..NCell:
                                  cc' = [cc EXCEPT ![self] = c]
                             /\ pc' = [pc EXCEPT ![self] = "U1"]
                             /\ UNCHANGED <<stack, plist, idx, ri, hi, keep, firstp, kk>>
                          \/ /\ stack' = [stack EXCEPT ![self] = << [ procedure |->  "scan",
                                                                      pc        |->  "C1",
                                                                      plist     |->  plist[self],
                                                                      idx       |->  idx[self],
                                                                      ri        |->  ri[self],
                                                                      hi        |->  hi[self],
                                                                      keep      |->  keep[self],
                                                                      firstp    |->  firstp[self] ] >>
                                                                  \o stack[self]]
                             /\ plist' = [plist EXCEPT ![self] = {}]
                             /\ idx' = [idx EXCEPT ![self] = 1]
                             /\ ri' = [ri EXCEPT ![self] = 1]
                             /\ hi' = [hi EXCEPT ![self] = 1]
                             /\ keep' = [keep EXCEPT ![self] = <<>>]
                             /\ firstp' = [firstp EXCEPT ![self] = NULL]
                             /\ pc' = [pc EXCEPT ![self] = "SC0"]
                             /\ UNCHANGED <<kk, cc>>
                  ELSE /\ pc' = [pc EXCEPT ![self] = "D0"]
                       /\ UNCHANGED << stack, plist, idx, ri, hi, keep, firstp, 
                                       ops, kk, cc >>
            /\ UNCHANGED << list, owner, freeFlag, hp, retired, nrec, cell, 
                            nextObj, ostate, dcount, snap, valid, destroyed, 
                            fin, hr, mi, rec, ai, cur, ret, old, ci >>

C1(self) == /\ pc[self] = "C1"
            /\ TRUE
            /\ pc' = [pc EXCEPT ![self] = "C0"]
            /\ UNCHANGED << list, owner, freeFlag, hp, retired, nrec, cell, 
                            nextObj, ostate, dcount, snap, valid, destroyed, 
                            fin, stack, plist, idx, ri, hi, keep, firstp, hr, 
                            mi, rec, ai, ops, cur, ret, kk, cc, old, ci >>

P1(self) == /\ pc[self] = "P1"
            /\ cur' = [cur EXCEPT ![self] = cell[cc[self]]]
            /\ pc' = [pc EXCEPT ![self] = "P2"]
            /\ UNCHANGED << list, owner, freeFlag, hp, retired, nrec, cell, 
                            nextObj, ostate, dcount, snap, valid, destroyed, 
                            fin, stack, plist, idx, ri, hi, keep, firstp, hr, 
                            mi, rec, ai, ops, ret, kk, cc, old, ci >>

P2(self) == /\ pc[self] = "P2"
            /\ ret' = [ret EXCEPT ![self] = cur[self]]
            /\ hp' = [hp EXCEPT ![rec[self]][kk[self]] = cur[self]]
            /\ snap' = [t \in Threads |-> { x \in snap[t] : ~(x[1] = rec[self] /\ x[2] = kk[self]) }]
            /\ valid' = [valid EXCEPT ![self][kk[self]] = NULL]
            /\ pc' = [pc EXCEPT ![self] = "P3"]
            /\ UNCHANGED << list, owner, freeFlag, retired, nrec, cell, 
                            nextObj, ostate, dcount, destroyed, fin, stack, 
                            plist, idx, ri, hi, keep, firstp, hr, mi, rec, ai, 
                            ops, cur, kk, cc, old, ci >>

P3(self) == /\ pc[self] = "P3"
            /\ cur' = [cur EXCEPT ![self] = cell[cc[self]]]
            /\ IF ret[self] # cur'[self]
                  THEN /\ pc' = [pc EXCEPT ![self] = "P2"]
                       /\ valid' = valid
                  ELSE /\ valid' = [valid EXCEPT ![self][kk[self]] = cur'[self]]
                       /\ pc' = [pc EXCEPT ![self] = "C1"]
            /\ UNCHANGED << list, owner, freeFlag, hp, retired, nrec, cell, 
                            nextObj, ostate, dcount, snap, destroyed, fin, 
                            stack, plist, idx, ri, hi, keep, firstp, hr, mi, 
                            rec, ai, ops, ret, kk, cc, old, ci >>

G1(self) == /\ pc[self] = "G1"
            /\ hp' = [hp EXCEPT ![rec[self]][kk[self]] = NULL]
            /\ snap' = [t \in Threads |-> { x \in snap[t] : ~(x[1] = rec[self] /\ x[2] = kk[self]) }]
            /\ valid' = [valid EXCEPT ![self][kk[self]] = NULL]
            /\ pc' = [pc EXCEPT ![self] = "C1"]
            /\ UNCHANGED << list, owner, freeFlag, retired, nrec, cell, 
                            nextObj, ostate, dcount, destroyed, fin, stack, 
                            plist, idx, ri, hi, keep, firstp, hr, mi, rec, ai, 
                            ops, cur, ret, kk, cc, old, ci >>

U1(self) == /\ pc[self] = "U1"
            /\ IF nextObj <= NObj
                  THEN /\ old' = [old EXCEPT ![self] = cell[cc[self]]]
                       /\ ostate' = [ostate EXCEPT ![nextObj] = "linked",
                                                   ![cell[cc[self]]] = "retired"]
                       /\ cell' = [cell EXCEPT ![cc[self]] = nextObj]
                       /\ nextObj' = nextObj + 1
                       /\ pc' = [pc EXCEPT ![self] = "U2"]
                  ELSE /\ pc' = [pc EXCEPT ![self] = "C1"]
                       /\ UNCHANGED << cell, nextObj, ostate, old >>
            /\ UNCHANGED << list, owner, freeFlag, hp, retired, nrec, dcount, 
                            snap, valid, destroyed, fin, stack, plist, idx, ri, 
                            hi, keep, firstp, hr, mi, rec, ai, ops, cur, ret, 
                            kk, cc, ci >>

U2(self) == /\ pc[self] = "U2"
            /\ Assert(Len(retired[rec[self]]) < R, 
                      "Failure of assertion at line 146, column 12.")
            /\ retired' = [retired EXCEPT ![rec[self]] = Append(retired[rec[self]], old[self])]
            /\ IF Len(retired'[rec[self]]) >= R
                  THEN /\ stack' = [stack EXCEPT ![self] = << [ procedure |->  "scan",
                                                                pc        |->  "C1",
                                                                plist     |->  plist[self],
                                                                idx       |->  idx[self],
                                                                ri        |->  ri[self],
                                                                hi        |->  hi[self],
                                                                keep      |->  keep[self],
                                                                firstp    |->  firstp[self] ] >>
                                                            \o stack[self]]
                       /\ plist' = [plist EXCEPT ![self] = {}]
                       /\ idx' = [idx EXCEPT ![self] = 1]
                       /\ ri' = [ri EXCEPT ![self] = 1]
                       /\ hi' = [hi EXCEPT ![self] = 1]
                       /\ keep' = [keep EXCEPT ![self] = <<>>]
                       /\ firstp' = [firstp EXCEPT ![self] = NULL]
                       /\ pc' = [pc EXCEPT ![self] = "SC0"]
                  ELSE /\ pc' = [pc EXCEPT ![self] = "C1"]
                       /\ UNCHANGED << stack, plist, idx, ri, hi, keep, firstp >>
            /\ UNCHANGED << list, owner, freeFlag, hp, nrec, cell, nextObj, 
                            ostate, dcount, snap, valid, destroyed, fin, hr, 
                            mi, rec, ai, ops, cur, ret, kk, cc, old, ci >>

D0(self) == /\ pc[self] = "D0"
            /\ ci' = [ci EXCEPT ![self] = 1]
            /\ pc' = [pc EXCEPT ![self] = "D1"]
            /\ UNCHANGED << list, owner, freeFlag, hp, retired, nrec, cell, 
                            nextObj, ostate, dcount, snap, valid, destroyed, 
                            fin, stack, plist, idx, ri, hi, keep, firstp, hr, 
                            mi, rec, ai, ops, cur, ret, kk, cc, old >>

D1(self) == /\ pc[self] = "D1"
            /\ IF ci[self] <= K
                  THEN /\ hp' = [hp EXCEPT ![rec[self]][ci[self]] = NULL]
                       /\ snap' = [t \in Threads |-> { x \in snap[t] : ~(x[1] = rec[self] /\ x[2] = ci[self]) }]
                       /\ valid' = [valid EXCEPT ![self][ci[self]] = NULL]
                       /\ ci' = [ci EXCEPT ![self] = ci[self] + 1]
                       /\ pc' = [pc EXCEPT ![self] = "D1"]
                  ELSE /\ pc' = [pc EXCEPT ![self] = "D2"]
                       /\ UNCHANGED << hp, snap, valid, ci >>
            /\ UNCHANGED << list, owner, freeFlag, retired, nrec, cell, 
                            nextObj, ostate, dcount, destroyed, fin, stack, 
                            plist, idx, ri, hi, keep, firstp, hr, mi, rec, ai, 
                            ops, cur, ret, kk, cc, old >>

D2(self) == /\ pc[self] = "D2"
            /\ stack' = [stack EXCEPT ![self] = << [ procedure |->  "scan",
                                                     pc        |->  "D3",
                                                     plist     |->  plist[self],
                                                     idx       |->  idx[self],
                                                     ri        |->  ri[self],
                                                     hi        |->  hi[self],
                                                     keep      |->  keep[self],
                                                     firstp    |->  firstp[self] ] >>
                                                 \o stack[self]]
            /\ plist' = [plist EXCEPT ![self] = {}]
            /\ idx' = [idx EXCEPT ![self] = 1]
            /\ ri' = [ri EXCEPT ![self] = 1]
            /\ hi' = [hi EXCEPT ![self] = 1]
            /\ keep' = [keep EXCEPT ![self] = <<>>]
            /\ firstp' = [firstp EXCEPT ![self] = NULL]
            /\ pc' = [pc EXCEPT ![self] = "SC0"]
            /\ UNCHANGED << list, owner, freeFlag, hp, retired, nrec, cell, 
                            nextObj, ostate, dcount, snap, valid, destroyed, 
                            fin, hr, mi, rec, ai, ops, cur, ret, kk, cc, old, 
                            ci >>

D3(self) == /\ pc[self] = "D3"
            /\ stack' = [stack EXCEPT ![self] = << [ procedure |->  "help_scan",
                                                     pc        |->  "D4",
                                                     hr        |->  hr[self],
                                                     mi        |->  mi[self] ] >>
                                                 \o stack[self]]
            /\ hr' = [hr EXCEPT ![self] = 1]
            /\ mi' = [mi EXCEPT ![self] = 1]
            /\ pc' = [pc EXCEPT ![self] = "HS0"]
            /\ UNCHANGED << list, owner, freeFlag, hp, retired, nrec, cell, 
                            nextObj, ostate, dcount, snap, valid, destroyed, 
                            fin, plist, idx, ri, hi, keep, firstp, rec, ai, 
                            ops, cur, ret, kk, cc, old, ci >>

D4(self) == /\ pc[self] = "D4"
            /\ owner' = [owner EXCEPT ![rec[self]] = FALSE]
            /\ rec' = [rec EXCEPT ![self] = NULL]
            /\ fin' = [fin EXCEPT ![self] = TRUE]
            /\ pc' = [pc EXCEPT ![self] = "Done"]
            /\ UNCHANGED << list, freeFlag, hp, retired, nrec, cell, nextObj, 
                            ostate, dcount, snap, valid, destroyed, stack, 
                            plist, idx, ri, hi, keep, firstp, hr, mi, ai, ops, 
                            cur, ret, kk, cc, old, ci >>

T(self) == A0(self) \/ A1(self) \/ A2(self) \/ A3(self) \/ C0(self)
              \/ C1(self) \/ P1(self) \/ P2(self) \/ P3(self) \/ G1(self)
              \/ U1(self) \/ U2(self) \/ D0(self) \/ D1(self) \/ D2(self)
              \/ D3(self) \/ D4(self)

M0 == /\ pc[0] = "M0"
      /\ \A t \in Threads : fin[t]
      /\ pc' = [pc EXCEPT ![0] = "M1"]
      /\ UNCHANGED << list, owner, freeFlag, hp, retired, nrec, cell, nextObj, 
                      ostate, dcount, snap, valid, destroyed, fin, stack, 
                      plist, idx, ri, hi, keep, firstp, hr, mi, rec, ai, ops, 
                      cur, ret, kk, cc, old, ci >>

M1 == /\ pc[0] = "M1"
      /\ dcount' = [o \in Obj |-> dcount[o] + Cardinality({ r \in Rec : o \in SeqToSet(retired[r]) })]
      /\ ostate' = [o \in Obj |-> IF \E r \in Rec : o \in SeqToSet(retired[r]) THEN "disposed" ELSE ostate[o]]
      /\ retired' = [r \in Rec |-> <<>>]
      /\ destroyed' = TRUE
      /\ pc' = [pc EXCEPT ![0] = "Done"]
      /\ UNCHANGED << list, owner, freeFlag, hp, nrec, cell, nextObj, snap, 
                      valid, fin, stack, plist, idx, ri, hi, keep, firstp, hr, 
                      mi, rec, ai, ops, cur, ret, kk, cc, old, ci >>

Main == M0 \/ M1

(* Allow infinite stuttering to prevent deadlock on termination. *)
Terminating == /\ \A self \in ProcSet: pc[self] = "Done"
               /\ UNCHANGED vars

Next == Main
           \/ (\E self \in ProcSet: scan(self) \/ help_scan(self))
           \/ (\E self \in Threads: T(self))
           \/ Terminating

Spec == Init /\ [][Next]_vars

Termination == <>(\A self \in ProcSet: pc[self] = "Done")

\* END TRANSLATION 
====
