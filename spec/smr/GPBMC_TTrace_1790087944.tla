---- MODULE GPBMC_TTrace_1790087944 ----
EXTENDS Sequences, GPBMC, TLCExt, Toolbox, Naturals, TLC

_expression ==
    LET GPBMC_TEExpression == INSTANCE GPBMC_TEExpression
    IN GPBMC_TEExpression!expression
----

_trace ==
    LET GPBMC_TETrace == INSTANCE GPBMC_TETrace
    IN GPBMC_TETrace!trace
----

_inv ==
    ~(
        TLCGet("level") = Len(_TETrace)
        /\
        pp = ((1 :> 0 @@ 11 :> 3 @@ 12 :> 1))
        /\
        dfree = (FALSE)
        /\
        ce = ((1 :> 0 @@ 11 :> 0 @@ 12 :> 0))
        /\
        stack = ((1 :> <<>> @@ 11 :> <<[pc |-> "W0", pp |-> 0, pe |-> 0, pushed |-> FALSE, procedure |-> "push_buffer"]>> @@ 12 :> <<[pc |-> "S8", ce |-> 0, citem |-> 0, procedure |-> "clear_buffer"], [pc |-> "PB3", ne |-> 0, procedure |-> "synchronize"], [pc |-> "W0", pp |-> 0, pe |-> 0, pushed |-> FALSE, procedure |-> "push_buffer"]>>))
        /\
        c = (<<[ph |-> 0, n |-> 1]>>)
        /\
        gl = (<<[ph |-> 0, n |-> 1]>>)
        /\
        old = ((11 :> 3 @@ 12 :> 1))
        /\
        g = ([ph |-> 0, n |-> 1])
        /\
        epoch = (1)
        /\
        ep = ((11 :> 0 @@ 12 :> 0))
        /\
        it = (<<1>>)
        /\
        cell = (4)
        /\
        p = (<<3>>)
        /\
        buf = (<<>>)
        /\
        citem = ((1 :> 0 @@ 11 :> 0 @@ 12 :> [p |-> 3, e |-> 0]))
        /\
        wi = ((11 :> 2 @@ 12 :> 1))
        /\
        pc = ((1 :> "R5" @@ 11 :> "PB2" @@ 12 :> "C1"))
        /\
        nextObj = (5)
        /\
        pe = ((1 :> 0 @@ 11 :> 0 @@ 12 :> 0))
        /\
        ne = ((1 :> 0 @@ 11 :> 0 @@ 12 :> 0))
        /\
        ri = ((1 :> 1 @@ 11 :> 1 @@ 12 :> 1))
        /\
        lockOwner = (0)
        /\
        disposed = ({1, 2, 3})
        /\
        pushed = ((1 :> FALSE @@ 11 :> TRUE @@ 12 :> TRUE))
    )
----

_init ==
    /\ epoch = _TETrace[1].epoch
    /\ lockOwner = _TETrace[1].lockOwner
    /\ ne = _TETrace[1].ne
    /\ disposed = _TETrace[1].disposed
    /\ c = _TETrace[1].c
    /\ g = _TETrace[1].g
    /\ ce = _TETrace[1].ce
    /\ p = _TETrace[1].p
    /\ pc = _TETrace[1].pc
    /\ pe = _TETrace[1].pe
    /\ pp = _TETrace[1].pp
    /\ ep = _TETrace[1].ep
    /\ ri = _TETrace[1].ri
    /\ old = _TETrace[1].old
    /\ nextObj = _TETrace[1].nextObj
    /\ dfree = _TETrace[1].dfree
    /\ pushed = _TETrace[1].pushed
    /\ gl = _TETrace[1].gl
    /\ buf = _TETrace[1].buf
    /\ citem = _TETrace[1].citem
    /\ it = _TETrace[1].it
    /\ wi = _TETrace[1].wi
    /\ stack = _TETrace[1].stack
    /\ cell = _TETrace[1].cell
----

_next ==
    /\ \E i,j \in DOMAIN _TETrace:
        /\ \/ /\ j = i + 1
              /\ i = TLCGet("level")
        /\ epoch  = _TETrace[i].epoch
        /\ epoch' = _TETrace[j].epoch
        /\ lockOwner  = _TETrace[i].lockOwner
        /\ lockOwner' = _TETrace[j].lockOwner
        /\ ne  = _TETrace[i].ne
        /\ ne' = _TETrace[j].ne
        /\ disposed  = _TETrace[i].disposed
        /\ disposed' = _TETrace[j].disposed
        /\ c  = _TETrace[i].c
        /\ c' = _TETrace[j].c
        /\ g  = _TETrace[i].g
        /\ g' = _TETrace[j].g
        /\ ce  = _TETrace[i].ce
        /\ ce' = _TETrace[j].ce
        /\ p  = _TETrace[i].p
        /\ p' = _TETrace[j].p
        /\ pc  = _TETrace[i].pc
        /\ pc' = _TETrace[j].pc
        /\ pe  = _TETrace[i].pe
        /\ pe' = _TETrace[j].pe
        /\ pp  = _TETrace[i].pp
        /\ pp' = _TETrace[j].pp
        /\ ep  = _TETrace[i].ep
        /\ ep' = _TETrace[j].ep
        /\ ri  = _TETrace[i].ri
        /\ ri' = _TETrace[j].ri
        /\ old  = _TETrace[i].old
        /\ old' = _TETrace[j].old
        /\ nextObj  = _TETrace[i].nextObj
        /\ nextObj' = _TETrace[j].nextObj
        /\ dfree  = _TETrace[i].dfree
        /\ dfree' = _TETrace[j].dfree
        /\ pushed  = _TETrace[i].pushed
        /\ pushed' = _TETrace[j].pushed
        /\ gl  = _TETrace[i].gl
        /\ gl' = _TETrace[j].gl
        /\ buf  = _TETrace[i].buf
        /\ buf' = _TETrace[j].buf
        /\ citem  = _TETrace[i].citem
        /\ citem' = _TETrace[j].citem
        /\ it  = _TETrace[i].it
        /\ it' = _TETrace[j].it
        /\ wi  = _TETrace[i].wi
        /\ wi' = _TETrace[j].wi
        /\ stack  = _TETrace[i].stack
        /\ stack' = _TETrace[j].stack
        /\ cell  = _TETrace[i].cell
        /\ cell' = _TETrace[j].cell

\* Uncomment the ASSUME below to write the states of the error trace
\* to the given file in Json format. Note that you can pass any tuple
\* to `JsonSerialize`. For example, a sub-sequence of _TETrace.
    \* ASSUME
    \*     LET J == INSTANCE Json
    \*         IN J!JsonSerialize("GPBMC_TTrace_1790087944.json", _TETrace)

=============================================================================

 Note that you can extract this module `GPBMC_TEExpression`
  to a dedicated file to reuse `expression` (the module in the 
  dedicated `GPBMC_TEExpression.tla` file takes precedence 
  over the module `GPBMC_TEExpression` below).

---- MODULE GPBMC_TEExpression ----
EXTENDS Sequences, GPBMC, TLCExt, Toolbox, Naturals, TLC

expression == 
    [
        \* To hide variables of the `GPBMC` spec from the error trace,
        \* remove the variables below.  The trace will be written in the order
        \* of the fields of this record.
        epoch |-> epoch
        ,lockOwner |-> lockOwner
        ,ne |-> ne
        ,disposed |-> disposed
        ,c |-> c
        ,g |-> g
        ,ce |-> ce
        ,p |-> p
        ,pc |-> pc
        ,pe |-> pe
        ,pp |-> pp
        ,ep |-> ep
        ,ri |-> ri
        ,old |-> old
        ,nextObj |-> nextObj
        ,dfree |-> dfree
        ,pushed |-> pushed
        ,gl |-> gl
        ,buf |-> buf
        ,citem |-> citem
        ,it |-> it
        ,wi |-> wi
        ,stack |-> stack
        ,cell |-> cell
        
        \* Put additional constant-, state-, and action-level expressions here:
        \* ,_stateNumber |-> _TEPosition
        \* ,_epochUnchanged |-> epoch = epoch'
        
        \* Format the `epoch` variable as Json value.
        \* ,_epochJson |->
        \*     LET J == INSTANCE Json
        \*     IN J!ToJson(epoch)
        
        \* Lastly, you may build expressions over arbitrary sets of states by
        \* leveraging the _TETrace operator.  For example, this is how to
        \* count the number of times a spec variable changed up to the current
        \* state in the trace.
        \* ,_epochModCount |->
        \*     LET F[s \in DOMAIN _TETrace] ==
        \*         IF s = 1 THEN 0
        \*         ELSE IF _TETrace[s].epoch # _TETrace[s-1].epoch
        \*             THEN 1 + F[s-1] ELSE F[s-1]
        \*     IN F[_TEPosition - 1]
    ]

=============================================================================



Parsing and semantic processing can take forever if the trace below is long.
 In this case, it is advised to uncomment the module below to deserialize the
 trace from a generated binary file.

\*
\*---- MODULE GPBMC_TETrace ----
\*EXTENDS IOUtils, GPBMC, TLC
\*
\*trace == IODeserialize("GPBMC_TTrace_1790087944.bin", TRUE)
\*
\*=============================================================================
\*

---- MODULE GPBMC_TETrace ----
EXTENDS GPBMC, TLC

trace == 
    <<
    ([pp |-> (1 :> 0 @@ 11 :> 0 @@ 12 :> 0),dfree |-> FALSE,ce |-> (1 :> 0 @@ 11 :> 0 @@ 12 :> 0),stack |-> (1 :> <<>> @@ 11 :> <<>> @@ 12 :> <<>>),c |-> <<[ph |-> 0, n |-> 0]>>,gl |-> <<[ph |-> 0, n |-> 0]>>,old |-> (11 :> 0 @@ 12 :> 0),g |-> [ph |-> 0, n |-> 1],epoch |-> 0,ep |-> (11 :> 0 @@ 12 :> 0),it |-> <<0>>,cell |-> 1,p |-> <<0>>,buf |-> <<>>,citem |-> (1 :> 0 @@ 11 :> 0 @@ 12 :> 0),wi |-> (11 :> 0 @@ 12 :> 0),pc |-> (1 :> "R0" @@ 11 :> "W0" @@ 12 :> "W0"),nextObj |-> 2,pe |-> (1 :> 0 @@ 11 :> 0 @@ 12 :> 0),ne |-> (1 :> 0 @@ 11 :> 0 @@ 12 :> 0),ri |-> (1 :> 1 @@ 11 :> 1 @@ 12 :> 1),lockOwner |-> 0,disposed |-> {},pushed |-> (1 :> FALSE @@ 11 :> FALSE @@ 12 :> FALSE)]),
    ([pp |-> (1 :> 0 @@ 11 :> 0 @@ 12 :> 0),dfree |-> FALSE,ce |-> (1 :> 0 @@ 11 :> 0 @@ 12 :> 0),stack |-> (1 :> <<>> @@ 11 :> <<>> @@ 12 :> <<>>),c |-> <<[ph |-> 0, n |-> 0]>>,gl |-> <<[ph |-> 0, n |-> 0]>>,old |-> (11 :> 0 @@ 12 :> 0),g |-> [ph |-> 0, n |-> 1],epoch |-> 0,ep |-> (11 :> 0 @@ 12 :> 0),it |-> <<0>>,cell |-> 1,p |-> <<0>>,buf |-> <<>>,citem |-> (1 :> 0 @@ 11 :> 0 @@ 12 :> 0),wi |-> (11 :> 0 @@ 12 :> 1),pc |-> (1 :> "R0" @@ 11 :> "W0" @@ 12 :> "W1"),nextObj |-> 2,pe |-> (1 :> 0 @@ 11 :> 0 @@ 12 :> 0),ne |-> (1 :> 0 @@ 11 :> 0 @@ 12 :> 0),ri |-> (1 :> 1 @@ 11 :> 1 @@ 12 :> 1),lockOwner |-> 0,disposed |-> {},pushed |-> (1 :> FALSE @@ 11 :> FALSE @@ 12 :> FALSE)]),
    ([pp |-> (1 :> 0 @@ 11 :> 0 @@ 12 :> 0),dfree |-> FALSE,ce |-> (1 :> 0 @@ 11 :> 0 @@ 12 :> 0),stack |-> (1 :> <<>> @@ 11 :> <<>> @@ 12 :> <<>>),c |-> <<[ph |-> 0, n |-> 0]>>,gl |-> <<[ph |-> 0, n |-> 0]>>,old |-> (11 :> 0 @@ 12 :> 0),g |-> [ph |-> 0, n |-> 1],epoch |-> 0,ep |-> (11 :> 0 @@ 12 :> 0),it |-> <<1>>,cell |-> 1,p |-> <<0>>,buf |-> <<>>,citem |-> (1 :> 0 @@ 11 :> 0 @@ 12 :> 0),wi |-> (11 :> 0 @@ 12 :> 1),pc |-> (1 :> "R2" @@ 11 :> "W0" @@ 12 :> "W1"),nextObj |-> 2,pe |-> (1 :> 0 @@ 11 :> 0 @@ 12 :> 0),ne |-> (1 :> 0 @@ 11 :> 0 @@ 12 :> 0),ri |-> (1 :> 1 @@ 11 :> 1 @@ 12 :> 1),lockOwner |-> 0,disposed |-> {},pushed |-> (1 :> FALSE @@ 11 :> FALSE @@ 12 :> FALSE)]),
    ([pp |-> (1 :> 0 @@ 11 :> 0 @@ 12 :> 0),dfree |-> FALSE,ce |-> (1 :> 0 @@ 11 :> 0 @@ 12 :> 0),stack |-> (1 :> <<>> @@ 11 :> <<>> @@ 12 :> <<>>),c |-> <<[ph |-> 0, n |-> 0]>>,gl |-> <<[ph |-> 0, n |-> 0]>>,old |-> (11 :> 0 @@ 12 :> 0),g |-> [ph |-> 0, n |-> 1],epoch |-> 0,ep |-> (11 :> 0 @@ 12 :> 0),it |-> <<1>>,cell |-> 1,p |-> <<0>>,buf |-> <<>>,citem |-> (1 :> 0 @@ 11 :> 0 @@ 12 :> 0),wi |-> (11 :> 1 @@ 12 :> 1),pc |-> (1 :> "R2" @@ 11 :> "W1" @@ 12 :> "W1"),nextObj |-> 2,pe |-> (1 :> 0 @@ 11 :> 0 @@ 12 :> 0),ne |-> (1 :> 0 @@ 11 :> 0 @@ 12 :> 0),ri |-> (1 :> 1 @@ 11 :> 1 @@ 12 :> 1),lockOwner |-> 0,disposed |-> {},pushed |-> (1 :> FALSE @@ 11 :> FALSE @@ 12 :> FALSE)]),
    ([pp |-> (1 :> 0 @@ 11 :> 0 @@ 12 :> 0),dfree |-> FALSE,ce |-> (1 :> 0 @@ 11 :> 0 @@ 12 :> 0),stack |-> (1 :> <<>> @@ 11 :> <<>> @@ 12 :> <<>>),c |-> <<[ph |-> 0, n |-> 0]>>,gl |-> <<[ph |-> 0, n |-> 0]>>,old |-> (11 :> 0 @@ 12 :> 1),g |-> [ph |-> 0, n |-> 1],epoch |-> 0,ep |-> (11 :> 0 @@ 12 :> 0),it |-> <<1>>,cell |-> 2,p |-> <<0>>,buf |-> <<>>,citem |-> (1 :> 0 @@ 11 :> 0 @@ 12 :> 0),wi |-> (11 :> 1 @@ 12 :> 1),pc |-> (1 :> "R2" @@ 11 :> "W1" @@ 12 :> "W2"),nextObj |-> 3,pe |-> (1 :> 0 @@ 11 :> 0 @@ 12 :> 0),ne |-> (1 :> 0 @@ 11 :> 0 @@ 12 :> 0),ri |-> (1 :> 1 @@ 11 :> 1 @@ 12 :> 1),lockOwner |-> 0,disposed |-> {},pushed |-> (1 :> FALSE @@ 11 :> FALSE @@ 12 :> FALSE)]),
    ([pp |-> (1 :> 0 @@ 11 :> 0 @@ 12 :> 0),dfree |-> FALSE,ce |-> (1 :> 0 @@ 11 :> 0 @@ 12 :> 0),stack |-> (1 :> <<>> @@ 11 :> <<>> @@ 12 :> <<>>),c |-> <<[ph |-> 0, n |-> 0]>>,gl |-> <<[ph |-> 0, n |-> 0]>>,old |-> (11 :> 2 @@ 12 :> 1),g |-> [ph |-> 0, n |-> 1],epoch |-> 0,ep |-> (11 :> 0 @@ 12 :> 0),it |-> <<1>>,cell |-> 3,p |-> <<0>>,buf |-> <<>>,citem |-> (1 :> 0 @@ 11 :> 0 @@ 12 :> 0),wi |-> (11 :> 1 @@ 12 :> 1),pc |-> (1 :> "R2" @@ 11 :> "W2" @@ 12 :> "W2"),nextObj |-> 4,pe |-> (1 :> 0 @@ 11 :> 0 @@ 12 :> 0),ne |-> (1 :> 0 @@ 11 :> 0 @@ 12 :> 0),ri |-> (1 :> 1 @@ 11 :> 1 @@ 12 :> 1),lockOwner |-> 0,disposed |-> {},pushed |-> (1 :> FALSE @@ 11 :> FALSE @@ 12 :> FALSE)]),
    ([pp |-> (1 :> 0 @@ 11 :> 0 @@ 12 :> 0),dfree |-> FALSE,ce |-> (1 :> 0 @@ 11 :> 0 @@ 12 :> 0),stack |-> (1 :> <<>> @@ 11 :> <<>> @@ 12 :> <<>>),c |-> <<[ph |-> 0, n |-> 0]>>,gl |-> <<[ph |-> 0, n |-> 0]>>,old |-> (11 :> 2 @@ 12 :> 1),g |-> [ph |-> 0, n |-> 1],epoch |-> 0,ep |-> (11 :> 0 @@ 12 :> 0),it |-> <<1>>,cell |-> 3,p |-> <<0>>,buf |-> <<>>,citem |-> (1 :> 0 @@ 11 :> 0 @@ 12 :> 0),wi |-> (11 :> 1 @@ 12 :> 1),pc |-> (1 :> "R2" @@ 11 :> "W3" @@ 12 :> "W2"),nextObj |-> 4,pe |-> (1 :> 0 @@ 11 :> 0 @@ 12 :> 0),ne |-> (1 :> 0 @@ 11 :> 0 @@ 12 :> 0),ri |-> (1 :> 1 @@ 11 :> 1 @@ 12 :> 1),lockOwner |-> 0,disposed |-> {},pushed |-> (1 :> FALSE @@ 11 :> FALSE @@ 12 :> FALSE)]),
    ([pp |-> (1 :> 0 @@ 11 :> 2 @@ 12 :> 0),dfree |-> FALSE,ce |-> (1 :> 0 @@ 11 :> 0 @@ 12 :> 0),stack |-> (1 :> <<>> @@ 11 :> <<[pc |-> "W0", pp |-> 0, pe |-> 0, pushed |-> FALSE, procedure |-> "push_buffer"]>> @@ 12 :> <<>>),c |-> <<[ph |-> 0, n |-> 0]>>,gl |-> <<[ph |-> 0, n |-> 0]>>,old |-> (11 :> 2 @@ 12 :> 1),g |-> [ph |-> 0, n |-> 1],epoch |-> 0,ep |-> (11 :> 0 @@ 12 :> 0),it |-> <<1>>,cell |-> 3,p |-> <<0>>,buf |-> <<>>,citem |-> (1 :> 0 @@ 11 :> 0 @@ 12 :> 0),wi |-> (11 :> 1 @@ 12 :> 1),pc |-> (1 :> "R2" @@ 11 :> "PB1" @@ 12 :> "W2"),nextObj |-> 4,pe |-> (1 :> 0 @@ 11 :> 0 @@ 12 :> 0),ne |-> (1 :> 0 @@ 11 :> 0 @@ 12 :> 0),ri |-> (1 :> 1 @@ 11 :> 1 @@ 12 :> 1),lockOwner |-> 0,disposed |-> {},pushed |-> (1 :> FALSE @@ 11 :> FALSE @@ 12 :> FALSE)]),
    ([pp |-> (1 :> 0 @@ 11 :> 2 @@ 12 :> 0),dfree |-> FALSE,ce |-> (1 :> 0 @@ 11 :> 0 @@ 12 :> 0),stack |-> (1 :> <<>> @@ 11 :> <<[pc |-> "W0", pp |-> 0, pe |-> 0, pushed |-> FALSE, procedure |-> "push_buffer"]>> @@ 12 :> <<>>),c |-> <<[ph |-> 0, n |-> 0]>>,gl |-> <<[ph |-> 0, n |-> 0]>>,old |-> (11 :> 2 @@ 12 :> 1),g |-> [ph |-> 0, n |-> 1],epoch |-> 0,ep |-> (11 :> 0 @@ 12 :> 0),it |-> <<1>>,cell |-> 3,p |-> <<0>>,buf |-> <<[p |-> 2, e |-> 0]>>,citem |-> (1 :> 0 @@ 11 :> 0 @@ 12 :> 0),wi |-> (11 :> 1 @@ 12 :> 1),pc |-> (1 :> "R2" @@ 11 :> "PB2" @@ 12 :> "W2"),nextObj |-> 4,pe |-> (1 :> 0 @@ 11 :> 0 @@ 12 :> 0),ne |-> (1 :> 0 @@ 11 :> 0 @@ 12 :> 0),ri |-> (1 :> 1 @@ 11 :> 1 @@ 12 :> 1),lockOwner |-> 0,disposed |-> {},pushed |-> (1 :> FALSE @@ 11 :> TRUE @@ 12 :> FALSE)]),
    ([pp |-> (1 :> 0 @@ 11 :> 2 @@ 12 :> 0),dfree |-> FALSE,ce |-> (1 :> 0 @@ 11 :> 0 @@ 12 :> 0),stack |-> (1 :> <<>> @@ 11 :> <<[pc |-> "W0", pp |-> 0, pe |-> 0, pushed |-> FALSE, procedure |-> "push_buffer"]>> @@ 12 :> <<>>),c |-> <<[ph |-> 0, n |-> 0]>>,gl |-> <<[ph |-> 0, n |-> 0]>>,old |-> (11 :> 2 @@ 12 :> 1),g |-> [ph |-> 0, n |-> 1],epoch |-> 0,ep |-> (11 :> 0 @@ 12 :> 0),it |-> <<1>>,cell |-> 3,p |-> <<0>>,buf |-> <<[p |-> 2, e |-> 0]>>,citem |-> (1 :> 0 @@ 11 :> 0 @@ 12 :> 0),wi |-> (11 :> 1 @@ 12 :> 1),pc |-> (1 :> "R2" @@ 11 :> "PB4" @@ 12 :> "W2"),nextObj |-> 4,pe |-> (1 :> 0 @@ 11 :> 0 @@ 12 :> 0),ne |-> (1 :> 0 @@ 11 :> 0 @@ 12 :> 0),ri |-> (1 :> 1 @@ 11 :> 1 @@ 12 :> 1),lockOwner |-> 0,disposed |-> {},pushed |-> (1 :> FALSE @@ 11 :> TRUE @@ 12 :> FALSE)]),
    ([pp |-> (1 :> 0 @@ 11 :> 0 @@ 12 :> 0),dfree |-> FALSE,ce |-> (1 :> 0 @@ 11 :> 0 @@ 12 :> 0),stack |-> (1 :> <<>> @@ 11 :> <<>> @@ 12 :> <<>>),c |-> <<[ph |-> 0, n |-> 0]>>,gl |-> <<[ph |-> 0, n |-> 0]>>,old |-> (11 :> 2 @@ 12 :> 1),g |-> [ph |-> 0, n |-> 1],epoch |-> 0,ep |-> (11 :> 0 @@ 12 :> 0),it |-> <<1>>,cell |-> 3,p |-> <<0>>,buf |-> <<[p |-> 2, e |-> 0]>>,citem |-> (1 :> 0 @@ 11 :> 0 @@ 12 :> 0),wi |-> (11 :> 1 @@ 12 :> 1),pc |-> (1 :> "R2" @@ 11 :> "W0" @@ 12 :> "W2"),nextObj |-> 4,pe |-> (1 :> 0 @@ 11 :> 0 @@ 12 :> 0),ne |-> (1 :> 0 @@ 11 :> 0 @@ 12 :> 0),ri |-> (1 :> 1 @@ 11 :> 1 @@ 12 :> 1),lockOwner |-> 0,disposed |-> {},pushed |-> (1 :> FALSE @@ 11 :> FALSE @@ 12 :> FALSE)]),
    ([pp |-> (1 :> 0 @@ 11 :> 0 @@ 12 :> 0),dfree |-> FALSE,ce |-> (1 :> 0 @@ 11 :> 0 @@ 12 :> 0),stack |-> (1 :> <<>> @@ 11 :> <<>> @@ 12 :> <<>>),c |-> <<[ph |-> 0, n |-> 0]>>,gl |-> <<[ph |-> 0, n |-> 0]>>,old |-> (11 :> 2 @@ 12 :> 1),g |-> [ph |-> 0, n |-> 1],epoch |-> 0,ep |-> (11 :> 0 @@ 12 :> 0),it |-> <<1>>,cell |-> 3,p |-> <<0>>,buf |-> <<[p |-> 2, e |-> 0]>>,citem |-> (1 :> 0 @@ 11 :> 0 @@ 12 :> 0),wi |-> (11 :> 1 @@ 12 :> 1),pc |-> (1 :> "R2" @@ 11 :> "W0" @@ 12 :> "W3"),nextObj |-> 4,pe |-> (1 :> 0 @@ 11 :> 0 @@ 12 :> 0),ne |-> (1 :> 0 @@ 11 :> 0 @@ 12 :> 0),ri |-> (1 :> 1 @@ 11 :> 1 @@ 12 :> 1),lockOwner |-> 0,disposed |-> {},pushed |-> (1 :> FALSE @@ 11 :> FALSE @@ 12 :> FALSE)]),
    ([pp |-> (1 :> 0 @@ 11 :> 0 @@ 12 :> 1),dfree |-> FALSE,ce |-> (1 :> 0 @@ 11 :> 0 @@ 12 :> 0),stack |-> (1 :> <<>> @@ 11 :> <<>> @@ 12 :> <<[pc |-> "W0", pp |-> 0, pe |-> 0, pushed |-> FALSE, procedure |-> "push_buffer"]>>),c |-> <<[ph |-> 0, n |-> 0]>>,gl |-> <<[ph |-> 0, n |-> 0]>>,old |-> (11 :> 2 @@ 12 :> 1),g |-> [ph |-> 0, n |-> 1],epoch |-> 0,ep |-> (11 :> 0 @@ 12 :> 0),it |-> <<1>>,cell |-> 3,p |-> <<0>>,buf |-> <<[p |-> 2, e |-> 0]>>,citem |-> (1 :> 0 @@ 11 :> 0 @@ 12 :> 0),wi |-> (11 :> 1 @@ 12 :> 1),pc |-> (1 :> "R2" @@ 11 :> "W0" @@ 12 :> "PB1"),nextObj |-> 4,pe |-> (1 :> 0 @@ 11 :> 0 @@ 12 :> 0),ne |-> (1 :> 0 @@ 11 :> 0 @@ 12 :> 0),ri |-> (1 :> 1 @@ 11 :> 1 @@ 12 :> 1),lockOwner |-> 0,disposed |-> {},pushed |-> (1 :> FALSE @@ 11 :> FALSE @@ 12 :> FALSE)]),
    ([pp |-> (1 :> 0 @@ 11 :> 0 @@ 12 :> 1),dfree |-> FALSE,ce |-> (1 :> 0 @@ 11 :> 0 @@ 12 :> 0),stack |-> (1 :> <<>> @@ 11 :> <<>> @@ 12 :> <<[pc |-> "W0", pp |-> 0, pe |-> 0, pushed |-> FALSE, procedure |-> "push_buffer"]>>),c |-> <<[ph |-> 0, n |-> 0]>>,gl |-> <<[ph |-> 0, n |-> 0]>>,old |-> (11 :> 2 @@ 12 :> 1),g |-> [ph |-> 0, n |-> 1],epoch |-> 0,ep |-> (11 :> 0 @@ 12 :> 0),it |-> <<1>>,cell |-> 3,p |-> <<0>>,buf |-> <<[p |-> 2, e |-> 0], [p |-> 1, e |-> 0]>>,citem |-> (1 :> 0 @@ 11 :> 0 @@ 12 :> 0),wi |-> (11 :> 1 @@ 12 :> 1),pc |-> (1 :> "R2" @@ 11 :> "W0" @@ 12 :> "PB2"),nextObj |-> 4,pe |-> (1 :> 0 @@ 11 :> 0 @@ 12 :> 0),ne |-> (1 :> 0 @@ 11 :> 0 @@ 12 :> 0),ri |-> (1 :> 1 @@ 11 :> 1 @@ 12 :> 1),lockOwner |-> 0,disposed |-> {},pushed |-> (1 :> FALSE @@ 11 :> FALSE @@ 12 :> TRUE)]),
    ([pp |-> (1 :> 0 @@ 11 :> 0 @@ 12 :> 1),dfree |-> FALSE,ce |-> (1 :> 0 @@ 11 :> 0 @@ 12 :> 0),stack |-> (1 :> <<>> @@ 11 :> <<>> @@ 12 :> <<[pc |-> "PB3", ne |-> 0, procedure |-> "synchronize"], [pc |-> "W0", pp |-> 0, pe |-> 0, pushed |-> FALSE, procedure |-> "push_buffer"]>>),c |-> <<[ph |-> 0, n |-> 0]>>,gl |-> <<[ph |-> 0, n |-> 0]>>,old |-> (11 :> 2 @@ 12 :> 1),g |-> [ph |-> 0, n |-> 1],epoch |-> 0,ep |-> (11 :> 0 @@ 12 :> 0),it |-> <<1>>,cell |-> 3,p |-> <<0>>,buf |-> <<[p |-> 2, e |-> 0], [p |-> 1, e |-> 0]>>,citem |-> (1 :> 0 @@ 11 :> 0 @@ 12 :> 0),wi |-> (11 :> 1 @@ 12 :> 1),pc |-> (1 :> "R2" @@ 11 :> "W0" @@ 12 :> "S1"),nextObj |-> 4,pe |-> (1 :> 0 @@ 11 :> 0 @@ 12 :> 0),ne |-> (1 :> 0 @@ 11 :> 0 @@ 12 :> 0),ri |-> (1 :> 1 @@ 11 :> 1 @@ 12 :> 1),lockOwner |-> 0,disposed |-> {},pushed |-> (1 :> FALSE @@ 11 :> FALSE @@ 12 :> TRUE)]),
    ([pp |-> (1 :> 0 @@ 11 :> 0 @@ 12 :> 1),dfree |-> FALSE,ce |-> (1 :> 0 @@ 11 :> 0 @@ 12 :> 0),stack |-> (1 :> <<>> @@ 11 :> <<>> @@ 12 :> <<[pc |-> "PB3", ne |-> 0, procedure |-> "synchronize"], [pc |-> "W0", pp |-> 0, pe |-> 0, pushed |-> FALSE, procedure |-> "push_buffer"]>>),c |-> <<[ph |-> 0, n |-> 0]>>,gl |-> <<[ph |-> 0, n |-> 1]>>,old |-> (11 :> 2 @@ 12 :> 1),g |-> [ph |-> 0, n |-> 1],epoch |-> 0,ep |-> (11 :> 0 @@ 12 :> 0),it |-> <<1>>,cell |-> 3,p |-> <<0>>,buf |-> <<[p |-> 2, e |-> 0], [p |-> 1, e |-> 0]>>,citem |-> (1 :> 0 @@ 11 :> 0 @@ 12 :> 0),wi |-> (11 :> 1 @@ 12 :> 1),pc |-> (1 :> "R3" @@ 11 :> "W0" @@ 12 :> "S1"),nextObj |-> 4,pe |-> (1 :> 0 @@ 11 :> 0 @@ 12 :> 0),ne |-> (1 :> 0 @@ 11 :> 0 @@ 12 :> 0),ri |-> (1 :> 1 @@ 11 :> 1 @@ 12 :> 1),lockOwner |-> 0,disposed |-> {},pushed |-> (1 :> FALSE @@ 11 :> FALSE @@ 12 :> TRUE)]),
    ([pp |-> (1 :> 0 @@ 11 :> 0 @@ 12 :> 1),dfree |-> FALSE,ce |-> (1 :> 0 @@ 11 :> 0 @@ 12 :> 0),stack |-> (1 :> <<>> @@ 11 :> <<>> @@ 12 :> <<[pc |-> "PB3", ne |-> 0, procedure |-> "synchronize"], [pc |-> "W0", pp |-> 0, pe |-> 0, pushed |-> FALSE, procedure |-> "push_buffer"]>>),c |-> <<[ph |-> 0, n |-> 0]>>,gl |-> <<[ph |-> 0, n |-> 1]>>,old |-> (11 :> 2 @@ 12 :> 1),g |-> [ph |-> 0, n |-> 1],epoch |-> 0,ep |-> (11 :> 0 @@ 12 :> 0),it |-> <<1>>,cell |-> 3,p |-> <<0>>,buf |-> <<[p |-> 2, e |-> 0], [p |-> 1, e |-> 0]>>,citem |-> (1 :> 0 @@ 11 :> 0 @@ 12 :> 0),wi |-> (11 :> 1 @@ 12 :> 1),pc |-> (1 :> "R3" @@ 11 :> "W0" @@ 12 :> "S2"),nextObj |-> 4,pe |-> (1 :> 0 @@ 11 :> 0 @@ 12 :> 0),ne |-> (1 :> 0 @@ 11 :> 0 @@ 12 :> 0),ri |-> (1 :> 1 @@ 11 :> 1 @@ 12 :> 1),lockOwner |-> 12,disposed |-> {},pushed |-> (1 :> FALSE @@ 11 :> FALSE @@ 12 :> TRUE)]),
    ([pp |-> (1 :> 0 @@ 11 :> 0 @@ 12 :> 1),dfree |-> FALSE,ce |-> (1 :> 0 @@ 11 :> 0 @@ 12 :> 0),stack |-> (1 :> <<>> @@ 11 :> <<>> @@ 12 :> <<[pc |-> "PB3", ne |-> 0, procedure |-> "synchronize"], [pc |-> "W0", pp |-> 0, pe |-> 0, pushed |-> FALSE, procedure |-> "push_buffer"]>>),c |-> <<[ph |-> 0, n |-> 0]>>,gl |-> <<[ph |-> 0, n |-> 1]>>,old |-> (11 :> 2 @@ 12 :> 1),g |-> [ph |-> 0, n |-> 1],epoch |-> 0,ep |-> (11 :> 0 @@ 12 :> 0),it |-> <<1>>,cell |-> 3,p |-> <<0>>,buf |-> <<[p |-> 2, e |-> 0], [p |-> 1, e |-> 0]>>,citem |-> (1 :> 0 @@ 11 :> 0 @@ 12 :> 0),wi |-> (11 :> 1 @@ 12 :> 1),pc |-> (1 :> "R3" @@ 11 :> "W0" @@ 12 :> "S3"),nextObj |-> 4,pe |-> (1 :> 0 @@ 11 :> 0 @@ 12 :> 0),ne |-> (1 :> 0 @@ 11 :> 0 @@ 12 :> 0),ri |-> (1 :> 1 @@ 11 :> 1 @@ 12 :> 1),lockOwner |-> 12,disposed |-> {},pushed |-> (1 :> FALSE @@ 11 :> FALSE @@ 12 :> TRUE)]),
    ([pp |-> (1 :> 0 @@ 11 :> 0 @@ 12 :> 1),dfree |-> FALSE,ce |-> (1 :> 0 @@ 11 :> 0 @@ 12 :> 0),stack |-> (1 :> <<>> @@ 11 :> <<>> @@ 12 :> <<[pc |-> "S4", ri |-> 1, procedure |-> "flip_and_wait"], [pc |-> "PB3", ne |-> 0, procedure |-> "synchronize"], [pc |-> "W0", pp |-> 0, pe |-> 0, pushed |-> FALSE, procedure |-> "push_buffer"]>>),c |-> <<[ph |-> 0, n |-> 0]>>,gl |-> <<[ph |-> 0, n |-> 1]>>,old |-> (11 :> 2 @@ 12 :> 1),g |-> [ph |-> 0, n |-> 1],epoch |-> 0,ep |-> (11 :> 0 @@ 12 :> 0),it |-> <<1>>,cell |-> 3,p |-> <<0>>,buf |-> <<[p |-> 2, e |-> 0], [p |-> 1, e |-> 0]>>,citem |-> (1 :> 0 @@ 11 :> 0 @@ 12 :> 0),wi |-> (11 :> 1 @@ 12 :> 1),pc |-> (1 :> "R3" @@ 11 :> "W0" @@ 12 :> "F1"),nextObj |-> 4,pe |-> (1 :> 0 @@ 11 :> 0 @@ 12 :> 0),ne |-> (1 :> 0 @@ 11 :> 0 @@ 12 :> 0),ri |-> (1 :> 1 @@ 11 :> 1 @@ 12 :> 1),lockOwner |-> 12,disposed |-> {},pushed |-> (1 :> FALSE @@ 11 :> FALSE @@ 12 :> TRUE)]),
    ([pp |-> (1 :> 0 @@ 11 :> 0 @@ 12 :> 1),dfree |-> FALSE,ce |-> (1 :> 0 @@ 11 :> 0 @@ 12 :> 0),stack |-> (1 :> <<>> @@ 11 :> <<>> @@ 12 :> <<[pc |-> "S4", ri |-> 1, procedure |-> "flip_and_wait"], [pc |-> "PB3", ne |-> 0, procedure |-> "synchronize"], [pc |-> "W0", pp |-> 0, pe |-> 0, pushed |-> FALSE, procedure |-> "push_buffer"]>>),c |-> <<[ph |-> 0, n |-> 0]>>,gl |-> <<[ph |-> 0, n |-> 1]>>,old |-> (11 :> 2 @@ 12 :> 1),g |-> [ph |-> 1, n |-> 1],epoch |-> 0,ep |-> (11 :> 0 @@ 12 :> 0),it |-> <<1>>,cell |-> 3,p |-> <<0>>,buf |-> <<[p |-> 2, e |-> 0], [p |-> 1, e |-> 0]>>,citem |-> (1 :> 0 @@ 11 :> 0 @@ 12 :> 0),wi |-> (11 :> 1 @@ 12 :> 1),pc |-> (1 :> "R3" @@ 11 :> "W0" @@ 12 :> "F3"),nextObj |-> 4,pe |-> (1 :> 0 @@ 11 :> 0 @@ 12 :> 0),ne |-> (1 :> 0 @@ 11 :> 0 @@ 12 :> 0),ri |-> (1 :> 1 @@ 11 :> 1 @@ 12 :> 1),lockOwner |-> 12,disposed |-> {},pushed |-> (1 :> FALSE @@ 11 :> FALSE @@ 12 :> TRUE)]),
    ([pp |-> (1 :> 0 @@ 11 :> 0 @@ 12 :> 1),dfree |-> FALSE,ce |-> (1 :> 0 @@ 11 :> 0 @@ 12 :> 0),stack |-> (1 :> <<>> @@ 11 :> <<>> @@ 12 :> <<[pc |-> "S4", ri |-> 1, procedure |-> "flip_and_wait"], [pc |-> "PB3", ne |-> 0, procedure |-> "synchronize"], [pc |-> "W0", pp |-> 0, pe |-> 0, pushed |-> FALSE, procedure |-> "push_buffer"]>>),c |-> <<[ph |-> 0, n |-> 0]>>,gl |-> <<[ph |-> 0, n |-> 1]>>,old |-> (11 :> 2 @@ 12 :> 1),g |-> [ph |-> 1, n |-> 1],epoch |-> 0,ep |-> (11 :> 0 @@ 12 :> 0),it |-> <<1>>,cell |-> 3,p |-> <<0>>,buf |-> <<[p |-> 2, e |-> 0], [p |-> 1, e |-> 0]>>,citem |-> (1 :> 0 @@ 11 :> 0 @@ 12 :> 0),wi |-> (11 :> 1 @@ 12 :> 1),pc |-> (1 :> "R3" @@ 11 :> "W0" @@ 12 :> "F3"),nextObj |-> 4,pe |-> (1 :> 0 @@ 11 :> 0 @@ 12 :> 0),ne |-> (1 :> 0 @@ 11 :> 0 @@ 12 :> 0),ri |-> (1 :> 1 @@ 11 :> 1 @@ 12 :> 2),lockOwner |-> 12,disposed |-> {},pushed |-> (1 :> FALSE @@ 11 :> FALSE @@ 12 :> TRUE)]),
    ([pp |-> (1 :> 0 @@ 11 :> 0 @@ 12 :> 1),dfree |-> FALSE,ce |-> (1 :> 0 @@ 11 :> 0 @@ 12 :> 0),stack |-> (1 :> <<>> @@ 11 :> <<>> @@ 12 :> <<[pc |-> "PB3", ne |-> 0, procedure |-> "synchronize"], [pc |-> "W0", pp |-> 0, pe |-> 0, pushed |-> FALSE, procedure |-> "push_buffer"]>>),c |-> <<[ph |-> 0, n |-> 0]>>,gl |-> <<[ph |-> 0, n |-> 1]>>,old |-> (11 :> 2 @@ 12 :> 1),g |-> [ph |-> 1, n |-> 1],epoch |-> 0,ep |-> (11 :> 0 @@ 12 :> 0),it |-> <<1>>,cell |-> 3,p |-> <<0>>,buf |-> <<[p |-> 2, e |-> 0], [p |-> 1, e |-> 0]>>,citem |-> (1 :> 0 @@ 11 :> 0 @@ 12 :> 0),wi |-> (11 :> 1 @@ 12 :> 1),pc |-> (1 :> "R3" @@ 11 :> "W0" @@ 12 :> "S4"),nextObj |-> 4,pe |-> (1 :> 0 @@ 11 :> 0 @@ 12 :> 0),ne |-> (1 :> 0 @@ 11 :> 0 @@ 12 :> 0),ri |-> (1 :> 1 @@ 11 :> 1 @@ 12 :> 1),lockOwner |-> 12,disposed |-> {},pushed |-> (1 :> FALSE @@ 11 :> FALSE @@ 12 :> TRUE)]),
    ([pp |-> (1 :> 0 @@ 11 :> 0 @@ 12 :> 1),dfree |-> FALSE,ce |-> (1 :> 0 @@ 11 :> 0 @@ 12 :> 0),stack |-> (1 :> <<>> @@ 11 :> <<>> @@ 12 :> <<[pc |-> "S5", ri |-> 1, procedure |-> "flip_and_wait"], [pc |-> "PB3", ne |-> 0, procedure |-> "synchronize"], [pc |-> "W0", pp |-> 0, pe |-> 0, pushed |-> FALSE, procedure |-> "push_buffer"]>>),c |-> <<[ph |-> 0, n |-> 0]>>,gl |-> <<[ph |-> 0, n |-> 1]>>,old |-> (11 :> 2 @@ 12 :> 1),g |-> [ph |-> 1, n |-> 1],epoch |-> 0,ep |-> (11 :> 0 @@ 12 :> 0),it |-> <<1>>,cell |-> 3,p |-> <<0>>,buf |-> <<[p |-> 2, e |-> 0], [p |-> 1, e |-> 0]>>,citem |-> (1 :> 0 @@ 11 :> 0 @@ 12 :> 0),wi |-> (11 :> 1 @@ 12 :> 1),pc |-> (1 :> "R3" @@ 11 :> "W0" @@ 12 :> "F1"),nextObj |-> 4,pe |-> (1 :> 0 @@ 11 :> 0 @@ 12 :> 0),ne |-> (1 :> 0 @@ 11 :> 0 @@ 12 :> 0),ri |-> (1 :> 1 @@ 11 :> 1 @@ 12 :> 1),lockOwner |-> 12,disposed |-> {},pushed |-> (1 :> FALSE @@ 11 :> FALSE @@ 12 :> TRUE)]),
    ([pp |-> (1 :> 0 @@ 11 :> 0 @@ 12 :> 1),dfree |-> FALSE,ce |-> (1 :> 0 @@ 11 :> 0 @@ 12 :> 0),stack |-> (1 :> <<>> @@ 11 :> <<>> @@ 12 :> <<[pc |-> "S5", ri |-> 1, procedure |-> "flip_and_wait"], [pc |-> "PB3", ne |-> 0, procedure |-> "synchronize"], [pc |-> "W0", pp |-> 0, pe |-> 0, pushed |-> FALSE, procedure |-> "push_buffer"]>>),c |-> <<[ph |-> 0, n |-> 0]>>,gl |-> <<[ph |-> 0, n |-> 1]>>,old |-> (11 :> 2 @@ 12 :> 1),g |-> [ph |-> 0, n |-> 1],epoch |-> 0,ep |-> (11 :> 0 @@ 12 :> 0),it |-> <<1>>,cell |-> 3,p |-> <<0>>,buf |-> <<[p |-> 2, e |-> 0], [p |-> 1, e |-> 0]>>,citem |-> (1 :> 0 @@ 11 :> 0 @@ 12 :> 0),wi |-> (11 :> 1 @@ 12 :> 1),pc |-> (1 :> "R3" @@ 11 :> "W0" @@ 12 :> "F3"),nextObj |-> 4,pe |-> (1 :> 0 @@ 11 :> 0 @@ 12 :> 0),ne |-> (1 :> 0 @@ 11 :> 0 @@ 12 :> 0),ri |-> (1 :> 1 @@ 11 :> 1 @@ 12 :> 1),lockOwner |-> 12,disposed |-> {},pushed |-> (1 :> FALSE @@ 11 :> FALSE @@ 12 :> TRUE)]),
    ([pp |-> (1 :> 0 @@ 11 :> 0 @@ 12 :> 1),dfree |-> FALSE,ce |-> (1 :> 0 @@ 11 :> 0 @@ 12 :> 0),stack |-> (1 :> <<>> @@ 11 :> <<>> @@ 12 :> <<[pc |-> "S5", ri |-> 1, procedure |-> "flip_and_wait"], [pc |-> "PB3", ne |-> 0, procedure |-> "synchronize"], [pc |-> "W0", pp |-> 0, pe |-> 0, pushed |-> FALSE, procedure |-> "push_buffer"]>>),c |-> <<[ph |-> 0, n |-> 0]>>,gl |-> <<[ph |-> 0, n |-> 1]>>,old |-> (11 :> 2 @@ 12 :> 1),g |-> [ph |-> 0, n |-> 1],epoch |-> 0,ep |-> (11 :> 0 @@ 12 :> 0),it |-> <<1>>,cell |-> 3,p |-> <<0>>,buf |-> <<[p |-> 2, e |-> 0], [p |-> 1, e |-> 0]>>,citem |-> (1 :> 0 @@ 11 :> 0 @@ 12 :> 0),wi |-> (11 :> 1 @@ 12 :> 1),pc |-> (1 :> "R3" @@ 11 :> "W0" @@ 12 :> "F3"),nextObj |-> 4,pe |-> (1 :> 0 @@ 11 :> 0 @@ 12 :> 0),ne |-> (1 :> 0 @@ 11 :> 0 @@ 12 :> 0),ri |-> (1 :> 1 @@ 11 :> 1 @@ 12 :> 2),lockOwner |-> 12,disposed |-> {},pushed |-> (1 :> FALSE @@ 11 :> FALSE @@ 12 :> TRUE)]),
    ([pp |-> (1 :> 0 @@ 11 :> 0 @@ 12 :> 1),dfree |-> FALSE,ce |-> (1 :> 0 @@ 11 :> 0 @@ 12 :> 0),stack |-> (1 :> <<>> @@ 11 :> <<>> @@ 12 :> <<[pc |-> "S5", ri |-> 1, procedure |-> "flip_and_wait"], [pc |-> "PB3", ne |-> 0, procedure |-> "synchronize"], [pc |-> "W0", pp |-> 0, pe |-> 0, pushed |-> FALSE, procedure |-> "push_buffer"]>>),c |-> <<[ph |-> 0, n |-> 0]>>,gl |-> <<[ph |-> 0, n |-> 1]>>,old |-> (11 :> 2 @@ 12 :> 1),g |-> [ph |-> 0, n |-> 1],epoch |-> 0,ep |-> (11 :> 0 @@ 12 :> 0),it |-> <<1>>,cell |-> 3,p |-> <<0>>,buf |-> <<[p |-> 2, e |-> 0], [p |-> 1, e |-> 0]>>,citem |-> (1 :> 0 @@ 11 :> 0 @@ 12 :> 0),wi |-> (11 :> 2 @@ 12 :> 1),pc |-> (1 :> "R3" @@ 11 :> "W1" @@ 12 :> "F3"),nextObj |-> 4,pe |-> (1 :> 0 @@ 11 :> 0 @@ 12 :> 0),ne |-> (1 :> 0 @@ 11 :> 0 @@ 12 :> 0),ri |-> (1 :> 1 @@ 11 :> 1 @@ 12 :> 2),lockOwner |-> 12,disposed |-> {},pushed |-> (1 :> FALSE @@ 11 :> FALSE @@ 12 :> TRUE)]),
    ([pp |-> (1 :> 0 @@ 11 :> 0 @@ 12 :> 1),dfree |-> FALSE,ce |-> (1 :> 0 @@ 11 :> 0 @@ 12 :> 0),stack |-> (1 :> <<>> @@ 11 :> <<>> @@ 12 :> <<[pc |-> "S5", ri |-> 1, procedure |-> "flip_and_wait"], [pc |-> "PB3", ne |-> 0, procedure |-> "synchronize"], [pc |-> "W0", pp |-> 0, pe |-> 0, pushed |-> FALSE, procedure |-> "push_buffer"]>>),c |-> <<[ph |-> 0, n |-> 1]>>,gl |-> <<[ph |-> 0, n |-> 1]>>,old |-> (11 :> 2 @@ 12 :> 1),g |-> [ph |-> 0, n |-> 1],epoch |-> 0,ep |-> (11 :> 0 @@ 12 :> 0),it |-> <<1>>,cell |-> 3,p |-> <<0>>,buf |-> <<[p |-> 2, e |-> 0], [p |-> 1, e |-> 0]>>,citem |-> (1 :> 0 @@ 11 :> 0 @@ 12 :> 0),wi |-> (11 :> 2 @@ 12 :> 1),pc |-> (1 :> "R4" @@ 11 :> "W1" @@ 12 :> "F3"),nextObj |-> 4,pe |-> (1 :> 0 @@ 11 :> 0 @@ 12 :> 0),ne |-> (1 :> 0 @@ 11 :> 0 @@ 12 :> 0),ri |-> (1 :> 1 @@ 11 :> 1 @@ 12 :> 2),lockOwner |-> 12,disposed |-> {},pushed |-> (1 :> FALSE @@ 11 :> FALSE @@ 12 :> TRUE)]),
    ([pp |-> (1 :> 0 @@ 11 :> 0 @@ 12 :> 1),dfree |-> FALSE,ce |-> (1 :> 0 @@ 11 :> 0 @@ 12 :> 0),stack |-> (1 :> <<>> @@ 11 :> <<>> @@ 12 :> <<[pc |-> "S5", ri |-> 1, procedure |-> "flip_and_wait"], [pc |-> "PB3", ne |-> 0, procedure |-> "synchronize"], [pc |-> "W0", pp |-> 0, pe |-> 0, pushed |-> FALSE, procedure |-> "push_buffer"]>>),c |-> <<[ph |-> 0, n |-> 1]>>,gl |-> <<[ph |-> 0, n |-> 1]>>,old |-> (11 :> 2 @@ 12 :> 1),g |-> [ph |-> 0, n |-> 1],epoch |-> 0,ep |-> (11 :> 0 @@ 12 :> 0),it |-> <<1>>,cell |-> 3,p |-> <<3>>,buf |-> <<[p |-> 2, e |-> 0], [p |-> 1, e |-> 0]>>,citem |-> (1 :> 0 @@ 11 :> 0 @@ 12 :> 0),wi |-> (11 :> 2 @@ 12 :> 1),pc |-> (1 :> "R5" @@ 11 :> "W1" @@ 12 :> "F3"),nextObj |-> 4,pe |-> (1 :> 0 @@ 11 :> 0 @@ 12 :> 0),ne |-> (1 :> 0 @@ 11 :> 0 @@ 12 :> 0),ri |-> (1 :> 1 @@ 11 :> 1 @@ 12 :> 2),lockOwner |-> 12,disposed |-> {},pushed |-> (1 :> FALSE @@ 11 :> FALSE @@ 12 :> TRUE)]),
    ([pp |-> (1 :> 0 @@ 11 :> 0 @@ 12 :> 1),dfree |-> FALSE,ce |-> (1 :> 0 @@ 11 :> 0 @@ 12 :> 0),stack |-> (1 :> <<>> @@ 11 :> <<>> @@ 12 :> <<[pc |-> "S5", ri |-> 1, procedure |-> "flip_and_wait"], [pc |-> "PB3", ne |-> 0, procedure |-> "synchronize"], [pc |-> "W0", pp |-> 0, pe |-> 0, pushed |-> FALSE, procedure |-> "push_buffer"]>>),c |-> <<[ph |-> 0, n |-> 1]>>,gl |-> <<[ph |-> 0, n |-> 1]>>,old |-> (11 :> 3 @@ 12 :> 1),g |-> [ph |-> 0, n |-> 1],epoch |-> 0,ep |-> (11 :> 0 @@ 12 :> 0),it |-> <<1>>,cell |-> 4,p |-> <<3>>,buf |-> <<[p |-> 2, e |-> 0], [p |-> 1, e |-> 0]>>,citem |-> (1 :> 0 @@ 11 :> 0 @@ 12 :> 0),wi |-> (11 :> 2 @@ 12 :> 1),pc |-> (1 :> "R5" @@ 11 :> "W2" @@ 12 :> "F3"),nextObj |-> 5,pe |-> (1 :> 0 @@ 11 :> 0 @@ 12 :> 0),ne |-> (1 :> 0 @@ 11 :> 0 @@ 12 :> 0),ri |-> (1 :> 1 @@ 11 :> 1 @@ 12 :> 2),lockOwner |-> 12,disposed |-> {},pushed |-> (1 :> FALSE @@ 11 :> FALSE @@ 12 :> TRUE)]),
    ([pp |-> (1 :> 0 @@ 11 :> 0 @@ 12 :> 1),dfree |-> FALSE,ce |-> (1 :> 0 @@ 11 :> 0 @@ 12 :> 0),stack |-> (1 :> <<>> @@ 11 :> <<>> @@ 12 :> <<[pc |-> "S5", ri |-> 1, procedure |-> "flip_and_wait"], [pc |-> "PB3", ne |-> 0, procedure |-> "synchronize"], [pc |-> "W0", pp |-> 0, pe |-> 0, pushed |-> FALSE, procedure |-> "push_buffer"]>>),c |-> <<[ph |-> 0, n |-> 1]>>,gl |-> <<[ph |-> 0, n |-> 1]>>,old |-> (11 :> 3 @@ 12 :> 1),g |-> [ph |-> 0, n |-> 1],epoch |-> 0,ep |-> (11 :> 0 @@ 12 :> 0),it |-> <<1>>,cell |-> 4,p |-> <<3>>,buf |-> <<[p |-> 2, e |-> 0], [p |-> 1, e |-> 0]>>,citem |-> (1 :> 0 @@ 11 :> 0 @@ 12 :> 0),wi |-> (11 :> 2 @@ 12 :> 1),pc |-> (1 :> "R5" @@ 11 :> "W3" @@ 12 :> "F3"),nextObj |-> 5,pe |-> (1 :> 0 @@ 11 :> 0 @@ 12 :> 0),ne |-> (1 :> 0 @@ 11 :> 0 @@ 12 :> 0),ri |-> (1 :> 1 @@ 11 :> 1 @@ 12 :> 2),lockOwner |-> 12,disposed |-> {},pushed |-> (1 :> FALSE @@ 11 :> FALSE @@ 12 :> TRUE)]),
    ([pp |-> (1 :> 0 @@ 11 :> 3 @@ 12 :> 1),dfree |-> FALSE,ce |-> (1 :> 0 @@ 11 :> 0 @@ 12 :> 0),stack |-> (1 :> <<>> @@ 11 :> <<[pc |-> "W0", pp |-> 0, pe |-> 0, pushed |-> FALSE, procedure |-> "push_buffer"]>> @@ 12 :> <<[pc |-> "S5", ri |-> 1, procedure |-> "flip_and_wait"], [pc |-> "PB3", ne |-> 0, procedure |-> "synchronize"], [pc |-> "W0", pp |-> 0, pe |-> 0, pushed |-> FALSE, procedure |-> "push_buffer"]>>),c |-> <<[ph |-> 0, n |-> 1]>>,gl |-> <<[ph |-> 0, n |-> 1]>>,old |-> (11 :> 3 @@ 12 :> 1),g |-> [ph |-> 0, n |-> 1],epoch |-> 0,ep |-> (11 :> 0 @@ 12 :> 0),it |-> <<1>>,cell |-> 4,p |-> <<3>>,buf |-> <<[p |-> 2, e |-> 0], [p |-> 1, e |-> 0]>>,citem |-> (1 :> 0 @@ 11 :> 0 @@ 12 :> 0),wi |-> (11 :> 2 @@ 12 :> 1),pc |-> (1 :> "R5" @@ 11 :> "PB1" @@ 12 :> "F3"),nextObj |-> 5,pe |-> (1 :> 0 @@ 11 :> 0 @@ 12 :> 0),ne |-> (1 :> 0 @@ 11 :> 0 @@ 12 :> 0),ri |-> (1 :> 1 @@ 11 :> 1 @@ 12 :> 2),lockOwner |-> 12,disposed |-> {},pushed |-> (1 :> FALSE @@ 11 :> FALSE @@ 12 :> TRUE)]),
    ([pp |-> (1 :> 0 @@ 11 :> 3 @@ 12 :> 1),dfree |-> FALSE,ce |-> (1 :> 0 @@ 11 :> 0 @@ 12 :> 0),stack |-> (1 :> <<>> @@ 11 :> <<[pc |-> "W0", pp |-> 0, pe |-> 0, pushed |-> FALSE, procedure |-> "push_buffer"]>> @@ 12 :> <<[pc |-> "PB3", ne |-> 0, procedure |-> "synchronize"], [pc |-> "W0", pp |-> 0, pe |-> 0, pushed |-> FALSE, procedure |-> "push_buffer"]>>),c |-> <<[ph |-> 0, n |-> 1]>>,gl |-> <<[ph |-> 0, n |-> 1]>>,old |-> (11 :> 3 @@ 12 :> 1),g |-> [ph |-> 0, n |-> 1],epoch |-> 0,ep |-> (11 :> 0 @@ 12 :> 0),it |-> <<1>>,cell |-> 4,p |-> <<3>>,buf |-> <<[p |-> 2, e |-> 0], [p |-> 1, e |-> 0]>>,citem |-> (1 :> 0 @@ 11 :> 0 @@ 12 :> 0),wi |-> (11 :> 2 @@ 12 :> 1),pc |-> (1 :> "R5" @@ 11 :> "PB1" @@ 12 :> "S5"),nextObj |-> 5,pe |-> (1 :> 0 @@ 11 :> 0 @@ 12 :> 0),ne |-> (1 :> 0 @@ 11 :> 0 @@ 12 :> 0),ri |-> (1 :> 1 @@ 11 :> 1 @@ 12 :> 1),lockOwner |-> 12,disposed |-> {},pushed |-> (1 :> FALSE @@ 11 :> FALSE @@ 12 :> TRUE)]),
    ([pp |-> (1 :> 0 @@ 11 :> 3 @@ 12 :> 1),dfree |-> FALSE,ce |-> (1 :> 0 @@ 11 :> 0 @@ 12 :> 0),stack |-> (1 :> <<>> @@ 11 :> <<[pc |-> "W0", pp |-> 0, pe |-> 0, pushed |-> FALSE, procedure |-> "push_buffer"]>> @@ 12 :> <<[pc |-> "PB3", ne |-> 0, procedure |-> "synchronize"], [pc |-> "W0", pp |-> 0, pe |-> 0, pushed |-> FALSE, procedure |-> "push_buffer"]>>),c |-> <<[ph |-> 0, n |-> 1]>>,gl |-> <<[ph |-> 0, n |-> 1]>>,old |-> (11 :> 3 @@ 12 :> 1),g |-> [ph |-> 0, n |-> 1],epoch |-> 1,ep |-> (11 :> 0 @@ 12 :> 0),it |-> <<1>>,cell |-> 4,p |-> <<3>>,buf |-> <<[p |-> 2, e |-> 0], [p |-> 1, e |-> 0]>>,citem |-> (1 :> 0 @@ 11 :> 0 @@ 12 :> 0),wi |-> (11 :> 2 @@ 12 :> 1),pc |-> (1 :> "R5" @@ 11 :> "PB1" @@ 12 :> "S6"),nextObj |-> 5,pe |-> (1 :> 0 @@ 11 :> 0 @@ 12 :> 0),ne |-> (1 :> 0 @@ 11 :> 0 @@ 12 :> 0),ri |-> (1 :> 1 @@ 11 :> 1 @@ 12 :> 1),lockOwner |-> 12,disposed |-> {},pushed |-> (1 :> FALSE @@ 11 :> FALSE @@ 12 :> TRUE)]),
    ([pp |-> (1 :> 0 @@ 11 :> 3 @@ 12 :> 1),dfree |-> FALSE,ce |-> (1 :> 0 @@ 11 :> 0 @@ 12 :> 0),stack |-> (1 :> <<>> @@ 11 :> <<[pc |-> "W0", pp |-> 0, pe |-> 0, pushed |-> FALSE, procedure |-> "push_buffer"]>> @@ 12 :> <<[pc |-> "PB3", ne |-> 0, procedure |-> "synchronize"], [pc |-> "W0", pp |-> 0, pe |-> 0, pushed |-> FALSE, procedure |-> "push_buffer"]>>),c |-> <<[ph |-> 0, n |-> 1]>>,gl |-> <<[ph |-> 0, n |-> 1]>>,old |-> (11 :> 3 @@ 12 :> 1),g |-> [ph |-> 0, n |-> 1],epoch |-> 1,ep |-> (11 :> 0 @@ 12 :> 0),it |-> <<1>>,cell |-> 4,p |-> <<3>>,buf |-> <<[p |-> 2, e |-> 0], [p |-> 1, e |-> 0]>>,citem |-> (1 :> 0 @@ 11 :> 0 @@ 12 :> 0),wi |-> (11 :> 2 @@ 12 :> 1),pc |-> (1 :> "R5" @@ 11 :> "PB1" @@ 12 :> "S7"),nextObj |-> 5,pe |-> (1 :> 0 @@ 11 :> 0 @@ 12 :> 0),ne |-> (1 :> 0 @@ 11 :> 0 @@ 12 :> 0),ri |-> (1 :> 1 @@ 11 :> 1 @@ 12 :> 1),lockOwner |-> 0,disposed |-> {},pushed |-> (1 :> FALSE @@ 11 :> FALSE @@ 12 :> TRUE)]),
    ([pp |-> (1 :> 0 @@ 11 :> 3 @@ 12 :> 1),dfree |-> FALSE,ce |-> (1 :> 0 @@ 11 :> 0 @@ 12 :> 0),stack |-> (1 :> <<>> @@ 11 :> <<[pc |-> "W0", pp |-> 0, pe |-> 0, pushed |-> FALSE, procedure |-> "push_buffer"]>> @@ 12 :> <<[pc |-> "S8", ce |-> 0, citem |-> 0, procedure |-> "clear_buffer"], [pc |-> "PB3", ne |-> 0, procedure |-> "synchronize"], [pc |-> "W0", pp |-> 0, pe |-> 0, pushed |-> FALSE, procedure |-> "push_buffer"]>>),c |-> <<[ph |-> 0, n |-> 1]>>,gl |-> <<[ph |-> 0, n |-> 1]>>,old |-> (11 :> 3 @@ 12 :> 1),g |-> [ph |-> 0, n |-> 1],epoch |-> 1,ep |-> (11 :> 0 @@ 12 :> 0),it |-> <<1>>,cell |-> 4,p |-> <<3>>,buf |-> <<[p |-> 2, e |-> 0], [p |-> 1, e |-> 0]>>,citem |-> (1 :> 0 @@ 11 :> 0 @@ 12 :> 0),wi |-> (11 :> 2 @@ 12 :> 1),pc |-> (1 :> "R5" @@ 11 :> "PB1" @@ 12 :> "C1"),nextObj |-> 5,pe |-> (1 :> 0 @@ 11 :> 0 @@ 12 :> 0),ne |-> (1 :> 0 @@ 11 :> 0 @@ 12 :> 0),ri |-> (1 :> 1 @@ 11 :> 1 @@ 12 :> 1),lockOwner |-> 0,disposed |-> {},pushed |-> (1 :> FALSE @@ 11 :> FALSE @@ 12 :> TRUE)]),
    ([pp |-> (1 :> 0 @@ 11 :> 3 @@ 12 :> 1),dfree |-> FALSE,ce |-> (1 :> 0 @@ 11 :> 0 @@ 12 :> 0),stack |-> (1 :> <<>> @@ 11 :> <<[pc |-> "W0", pp |-> 0, pe |-> 0, pushed |-> FALSE, procedure |-> "push_buffer"]>> @@ 12 :> <<[pc |-> "S8", ce |-> 0, citem |-> 0, procedure |-> "clear_buffer"], [pc |-> "PB3", ne |-> 0, procedure |-> "synchronize"], [pc |-> "W0", pp |-> 0, pe |-> 0, pushed |-> FALSE, procedure |-> "push_buffer"]>>),c |-> <<[ph |-> 0, n |-> 1]>>,gl |-> <<[ph |-> 0, n |-> 1]>>,old |-> (11 :> 3 @@ 12 :> 1),g |-> [ph |-> 0, n |-> 1],epoch |-> 1,ep |-> (11 :> 0 @@ 12 :> 0),it |-> <<1>>,cell |-> 4,p |-> <<3>>,buf |-> <<[p |-> 1, e |-> 0]>>,citem |-> (1 :> 0 @@ 11 :> 0 @@ 12 :> [p |-> 2, e |-> 0]),wi |-> (11 :> 2 @@ 12 :> 1),pc |-> (1 :> "R5" @@ 11 :> "PB1" @@ 12 :> "C2"),nextObj |-> 5,pe |-> (1 :> 0 @@ 11 :> 0 @@ 12 :> 0),ne |-> (1 :> 0 @@ 11 :> 0 @@ 12 :> 0),ri |-> (1 :> 1 @@ 11 :> 1 @@ 12 :> 1),lockOwner |-> 0,disposed |-> {},pushed |-> (1 :> FALSE @@ 11 :> FALSE @@ 12 :> TRUE)]),
    ([pp |-> (1 :> 0 @@ 11 :> 3 @@ 12 :> 1),dfree |-> FALSE,ce |-> (1 :> 0 @@ 11 :> 0 @@ 12 :> 0),stack |-> (1 :> <<>> @@ 11 :> <<[pc |-> "W0", pp |-> 0, pe |-> 0, pushed |-> FALSE, procedure |-> "push_buffer"]>> @@ 12 :> <<[pc |-> "S8", ce |-> 0, citem |-> 0, procedure |-> "clear_buffer"], [pc |-> "PB3", ne |-> 0, procedure |-> "synchronize"], [pc |-> "W0", pp |-> 0, pe |-> 0, pushed |-> FALSE, procedure |-> "push_buffer"]>>),c |-> <<[ph |-> 0, n |-> 1]>>,gl |-> <<[ph |-> 0, n |-> 1]>>,old |-> (11 :> 3 @@ 12 :> 1),g |-> [ph |-> 0, n |-> 1],epoch |-> 1,ep |-> (11 :> 0 @@ 12 :> 0),it |-> <<1>>,cell |-> 4,p |-> <<3>>,buf |-> <<[p |-> 1, e |-> 0], [p |-> 3, e |-> 0]>>,citem |-> (1 :> 0 @@ 11 :> 0 @@ 12 :> [p |-> 2, e |-> 0]),wi |-> (11 :> 2 @@ 12 :> 1),pc |-> (1 :> "R5" @@ 11 :> "PB2" @@ 12 :> "C2"),nextObj |-> 5,pe |-> (1 :> 0 @@ 11 :> 0 @@ 12 :> 0),ne |-> (1 :> 0 @@ 11 :> 0 @@ 12 :> 0),ri |-> (1 :> 1 @@ 11 :> 1 @@ 12 :> 1),lockOwner |-> 0,disposed |-> {},pushed |-> (1 :> FALSE @@ 11 :> TRUE @@ 12 :> TRUE)]),
    ([pp |-> (1 :> 0 @@ 11 :> 3 @@ 12 :> 1),dfree |-> FALSE,ce |-> (1 :> 0 @@ 11 :> 0 @@ 12 :> 0),stack |-> (1 :> <<>> @@ 11 :> <<[pc |-> "W0", pp |-> 0, pe |-> 0, pushed |-> FALSE, procedure |-> "push_buffer"]>> @@ 12 :> <<[pc |-> "S8", ce |-> 0, citem |-> 0, procedure |-> "clear_buffer"], [pc |-> "PB3", ne |-> 0, procedure |-> "synchronize"], [pc |-> "W0", pp |-> 0, pe |-> 0, pushed |-> FALSE, procedure |-> "push_buffer"]>>),c |-> <<[ph |-> 0, n |-> 1]>>,gl |-> <<[ph |-> 0, n |-> 1]>>,old |-> (11 :> 3 @@ 12 :> 1),g |-> [ph |-> 0, n |-> 1],epoch |-> 1,ep |-> (11 :> 0 @@ 12 :> 0),it |-> <<1>>,cell |-> 4,p |-> <<3>>,buf |-> <<[p |-> 1, e |-> 0], [p |-> 3, e |-> 0]>>,citem |-> (1 :> 0 @@ 11 :> 0 @@ 12 :> [p |-> 2, e |-> 0]),wi |-> (11 :> 2 @@ 12 :> 1),pc |-> (1 :> "R5" @@ 11 :> "PB2" @@ 12 :> "C1"),nextObj |-> 5,pe |-> (1 :> 0 @@ 11 :> 0 @@ 12 :> 0),ne |-> (1 :> 0 @@ 11 :> 0 @@ 12 :> 0),ri |-> (1 :> 1 @@ 11 :> 1 @@ 12 :> 1),lockOwner |-> 0,disposed |-> {2},pushed |-> (1 :> FALSE @@ 11 :> TRUE @@ 12 :> TRUE)]),
    ([pp |-> (1 :> 0 @@ 11 :> 3 @@ 12 :> 1),dfree |-> FALSE,ce |-> (1 :> 0 @@ 11 :> 0 @@ 12 :> 0),stack |-> (1 :> <<>> @@ 11 :> <<[pc |-> "W0", pp |-> 0, pe |-> 0, pushed |-> FALSE, procedure |-> "push_buffer"]>> @@ 12 :> <<[pc |-> "S8", ce |-> 0, citem |-> 0, procedure |-> "clear_buffer"], [pc |-> "PB3", ne |-> 0, procedure |-> "synchronize"], [pc |-> "W0", pp |-> 0, pe |-> 0, pushed |-> FALSE, procedure |-> "push_buffer"]>>),c |-> <<[ph |-> 0, n |-> 1]>>,gl |-> <<[ph |-> 0, n |-> 1]>>,old |-> (11 :> 3 @@ 12 :> 1),g |-> [ph |-> 0, n |-> 1],epoch |-> 1,ep |-> (11 :> 0 @@ 12 :> 0),it |-> <<1>>,cell |-> 4,p |-> <<3>>,buf |-> <<[p |-> 3, e |-> 0]>>,citem |-> (1 :> 0 @@ 11 :> 0 @@ 12 :> [p |-> 1, e |-> 0]),wi |-> (11 :> 2 @@ 12 :> 1),pc |-> (1 :> "R5" @@ 11 :> "PB2" @@ 12 :> "C2"),nextObj |-> 5,pe |-> (1 :> 0 @@ 11 :> 0 @@ 12 :> 0),ne |-> (1 :> 0 @@ 11 :> 0 @@ 12 :> 0),ri |-> (1 :> 1 @@ 11 :> 1 @@ 12 :> 1),lockOwner |-> 0,disposed |-> {2},pushed |-> (1 :> FALSE @@ 11 :> TRUE @@ 12 :> TRUE)]),
    ([pp |-> (1 :> 0 @@ 11 :> 3 @@ 12 :> 1),dfree |-> FALSE,ce |-> (1 :> 0 @@ 11 :> 0 @@ 12 :> 0),stack |-> (1 :> <<>> @@ 11 :> <<[pc |-> "W0", pp |-> 0, pe |-> 0, pushed |-> FALSE, procedure |-> "push_buffer"]>> @@ 12 :> <<[pc |-> "S8", ce |-> 0, citem |-> 0, procedure |-> "clear_buffer"], [pc |-> "PB3", ne |-> 0, procedure |-> "synchronize"], [pc |-> "W0", pp |-> 0, pe |-> 0, pushed |-> FALSE, procedure |-> "push_buffer"]>>),c |-> <<[ph |-> 0, n |-> 1]>>,gl |-> <<[ph |-> 0, n |-> 1]>>,old |-> (11 :> 3 @@ 12 :> 1),g |-> [ph |-> 0, n |-> 1],epoch |-> 1,ep |-> (11 :> 0 @@ 12 :> 0),it |-> <<1>>,cell |-> 4,p |-> <<3>>,buf |-> <<[p |-> 3, e |-> 0]>>,citem |-> (1 :> 0 @@ 11 :> 0 @@ 12 :> [p |-> 1, e |-> 0]),wi |-> (11 :> 2 @@ 12 :> 1),pc |-> (1 :> "R5" @@ 11 :> "PB2" @@ 12 :> "C1"),nextObj |-> 5,pe |-> (1 :> 0 @@ 11 :> 0 @@ 12 :> 0),ne |-> (1 :> 0 @@ 11 :> 0 @@ 12 :> 0),ri |-> (1 :> 1 @@ 11 :> 1 @@ 12 :> 1),lockOwner |-> 0,disposed |-> {1, 2},pushed |-> (1 :> FALSE @@ 11 :> TRUE @@ 12 :> TRUE)]),
    ([pp |-> (1 :> 0 @@ 11 :> 3 @@ 12 :> 1),dfree |-> FALSE,ce |-> (1 :> 0 @@ 11 :> 0 @@ 12 :> 0),stack |-> (1 :> <<>> @@ 11 :> <<[pc |-> "W0", pp |-> 0, pe |-> 0, pushed |-> FALSE, procedure |-> "push_buffer"]>> @@ 12 :> <<[pc |-> "S8", ce |-> 0, citem |-> 0, procedure |-> "clear_buffer"], [pc |-> "PB3", ne |-> 0, procedure |-> "synchronize"], [pc |-> "W0", pp |-> 0, pe |-> 0, pushed |-> FALSE, procedure |-> "push_buffer"]>>),c |-> <<[ph |-> 0, n |-> 1]>>,gl |-> <<[ph |-> 0, n |-> 1]>>,old |-> (11 :> 3 @@ 12 :> 1),g |-> [ph |-> 0, n |-> 1],epoch |-> 1,ep |-> (11 :> 0 @@ 12 :> 0),it |-> <<1>>,cell |-> 4,p |-> <<3>>,buf |-> <<>>,citem |-> (1 :> 0 @@ 11 :> 0 @@ 12 :> [p |-> 3, e |-> 0]),wi |-> (11 :> 2 @@ 12 :> 1),pc |-> (1 :> "R5" @@ 11 :> "PB2" @@ 12 :> "C2"),nextObj |-> 5,pe |-> (1 :> 0 @@ 11 :> 0 @@ 12 :> 0),ne |-> (1 :> 0 @@ 11 :> 0 @@ 12 :> 0),ri |-> (1 :> 1 @@ 11 :> 1 @@ 12 :> 1),lockOwner |-> 0,disposed |-> {1, 2},pushed |-> (1 :> FALSE @@ 11 :> TRUE @@ 12 :> TRUE)]),
    ([pp |-> (1 :> 0 @@ 11 :> 3 @@ 12 :> 1),dfree |-> FALSE,ce |-> (1 :> 0 @@ 11 :> 0 @@ 12 :> 0),stack |-> (1 :> <<>> @@ 11 :> <<[pc |-> "W0", pp |-> 0, pe |-> 0, pushed |-> FALSE, procedure |-> "push_buffer"]>> @@ 12 :> <<[pc |-> "S8", ce |-> 0, citem |-> 0, procedure |-> "clear_buffer"], [pc |-> "PB3", ne |-> 0, procedure |-> "synchronize"], [pc |-> "W0", pp |-> 0, pe |-> 0, pushed |-> FALSE, procedure |-> "push_buffer"]>>),c |-> <<[ph |-> 0, n |-> 1]>>,gl |-> <<[ph |-> 0, n |-> 1]>>,old |-> (11 :> 3 @@ 12 :> 1),g |-> [ph |-> 0, n |-> 1],epoch |-> 1,ep |-> (11 :> 0 @@ 12 :> 0),it |-> <<1>>,cell |-> 4,p |-> <<3>>,buf |-> <<>>,citem |-> (1 :> 0 @@ 11 :> 0 @@ 12 :> [p |-> 3, e |-> 0]),wi |-> (11 :> 2 @@ 12 :> 1),pc |-> (1 :> "R5" @@ 11 :> "PB2" @@ 12 :> "C1"),nextObj |-> 5,pe |-> (1 :> 0 @@ 11 :> 0 @@ 12 :> 0),ne |-> (1 :> 0 @@ 11 :> 0 @@ 12 :> 0),ri |-> (1 :> 1 @@ 11 :> 1 @@ 12 :> 1),lockOwner |-> 0,disposed |-> {1, 2, 3},pushed |-> (1 :> FALSE @@ 11 :> TRUE @@ 12 :> TRUE)])
    >>
----


=============================================================================

---- CONFIG GPBMC_TTrace_1790087944 ----
CONSTANTS
    Readers = { 1 }
    Writers = { 11 , 12 }
    RIter = 2
    WIter = 2
    Order <- MCOrder
    Threshold = 2
    QCap = 2
    EpochLate = TRUE
    OneFlip = FALSE
    NoEpochCheck = FALSE
    FreeRejected = FALSE
    MaxEpoch = 6
    defaultInitValue = 0

INVARIANT
    _inv

CHECK_DEADLOCK
    \* CHECK_DEADLOCK off because of PROPERTY or INVARIANT above.
    FALSE

INIT
    _init

NEXT
    _next

CONSTANT
    _TETrace <- _trace

ALIAS
    _expression
=============================================================================
\* Generated on Tue Sep 22 14:41:14 UTC 2026