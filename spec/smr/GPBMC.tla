---- MODULE GPBMC ----
EXTENDS GPB
MCOrder == <<1>>
MCOrder2 == <<1, 2>>
====
