SPECIFICATION Spec
CONSTANTS
  Holder = 1
  Retirer = 2
  N = 1
  E = 2
  B = 2
  GSlots = 3
  HSteps = 3
  Script <- ScriptA
  ExtBound = FALSE
  EmptyNoHead = TRUE
  StaleTail = FALSE
  defaultInitValue = 0
INVARIANTS NoDoubleFree NoOverflow NoLeak Conservation
CHECK_DEADLOCK FALSE
