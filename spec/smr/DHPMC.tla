---- MODULE DHPMC ----
EXTENDS DHP
ScriptA == <<"retire", "retire", "retire", "detach", "attach", "retire", "retire">>
ScriptB == <<"retire", "retire", "detach", "attach", "retire">>
====
