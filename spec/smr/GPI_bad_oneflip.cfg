SPECIFICATION Spec
CONSTANTS
  Readers = {1}
  Writers = {2}
  Flips = 1
  RIter = 2
  WIter = 2
  Order <- MCOrder
VIEW View
CHECK_DEADLOCK FALSE
