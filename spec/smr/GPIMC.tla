---- MODULE GPIMC ----
EXTENDS GPI
MCOrder == <<2, 1>>
View == <<g, c, lockOwner, cell, nextObj, disposed, pc, stack, ri, v, wi, old, fl, it, tmp, gl, p>>
====
